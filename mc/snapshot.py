"""Canonical, type-exact, identity-aware snapshots of arbitrary object graphs (DESIGN 3.7)."""
import enum
import types


_ATOM = (type(None), bool, int, float, str, bytes)
_MISSING = object()


def attrs_of(x):
    """Instance attributes of an arbitrary object: its __dict__ plus every __slots__ entry along the MRO
    (so that a class moved to __slots__ is described exactly like before).  None if it has neither."""
    d = getattr(x, "__dict__", None)
    out = dict(d) if isinstance(d, dict) else {}
    has_slots = False
    for klass in type(x).__mro__:
        slots = klass.__dict__.get("__slots__", ())
        if isinstance(slots, str):
            slots = (slots,)
        for name in slots:
            if name in ("__dict__", "__weakref__"):
                continue
            has_slots = True
            v = getattr(x, name, _MISSING)
            if v is not _MISSING:
                out[name] = v
    if d is None and not has_slots:
        return None
    return out


def _opaque(x):
    r = repr(x)
    return r if " at 0x" not in r else "<%s>" % type(x).__qualname__


def snap(x, _memo=None, _depth=0):
    """A hashable, canonical description of ``x``.

    * type-exact: ``1``, ``True`` and ``1.0`` differ, ``tuple`` differs from ``list``;
    * identity-aware: a mutable object reached twice is described once and referred to by its
      visit number the second time (so sharing and cycles are part of the snapshot);
    * generic: valida objects are described through ``vars()``; no attribute name is hard-coded.
    """
    if _memo is None:
        _memo = {}
    t = type(x)
    if t in _ATOM:
        return (t.__name__, x)
    if isinstance(x, enum.Enum):
        return ("enum", type(x).__name__, x.name)
    if isinstance(x, type):
        return ("type", x.__module__, x.__qualname__)
    if isinstance(x, (types.FunctionType, types.BuiltinFunctionType, types.MethodType)):
        return ("func", getattr(x, "__module__", None), getattr(x, "__qualname__", repr(x)))
    if t is range:
        return ("range", x.start, x.stop, x.step)
    oid = id(x)
    if oid in _memo:
        return ("ref", _memo[oid])
    if _depth > 60:
        return ("deep", t.__name__)
    if t is tuple:
        # tuples are immutable: no identity recorded (avoids spurious differences between a
        # shared and a rebuilt tuple), but their contents may be mutable
        return ("tuple",) + tuple(snap(i, _memo, _depth + 1) for i in x)
    _memo[oid] = len(_memo)
    n = _memo[oid]
    if t is list:
        return ("list", n) + tuple(snap(i, _memo, _depth + 1) for i in x)
    if t is dict:
        return ("dict", n) + tuple(
            (snap(k, _memo, _depth + 1), snap(v, _memo, _depth + 1)) for k, v in x.items()
        )
    if t in (set, frozenset):
        return (t.__name__, n) + tuple(sorted((snap(i, _memo, _depth + 1) for i in x), key=repr))
    if isinstance(x, (list, tuple)):
        return ("seq", t.__name__, n) + tuple(snap(i, _memo, _depth + 1) for i in x)
    if isinstance(x, dict):
        return ("map", t.__name__, n) + tuple(
            (snap(k, _memo, _depth + 1), snap(v, _memo, _depth + 1)) for k, v in x.items()
        )
    d = attrs_of(x)
    if d is not None:
        return ("obj", t.__module__, t.__qualname__, n) + tuple(
            (k, snap(v, _memo, _depth + 1)) for k, v in sorted(d.items())
        )
    return ("opaque", t.__module__, t.__qualname__, _opaque(x))


def vsnap(x, _path=()):
    """Value snapshot: like ``snap`` but without identity numbers -- type-exact structural
    equality of JSON-like values (used for 'type-exactly equal' comparisons).  A container met
    again on the path from the root (a cyclic value) is described by how many levels up it sits."""
    t = type(x)
    if t in _ATOM:
        return (t.__name__, x)
    if isinstance(x, type):
        return ("type", x.__qualname__)
    if isinstance(x, enum.Enum):
        return ("enum", type(x).__name__, x.name)
    if isinstance(x, (types.FunctionType, types.BuiltinFunctionType, types.MethodType)):
        return ("func", getattr(x, "__qualname__", repr(x)))
    for base in (str, bytes, float, int):       # an instance of a sub-type of a scalar type: its type name and its value
        if isinstance(x, base):
            return (t.__name__, base(x))
    oid = id(x)
    if oid in _path:
        return ("cycle", len(_path) - _path.index(oid))
    if len(_path) > 200:
        return ("deep", t.__name__)
    p = _path + (oid,)
    if t is list or t is tuple:
        return (t.__name__,) + tuple(vsnap(i, p) for i in x)
    if t is dict:
        return ("dict",) + tuple((vsnap(k, p), vsnap(v, p)) for k, v in x.items())
    if isinstance(x, dict):
        return ("map", t.__name__) + tuple((vsnap(k, p), vsnap(v, p)) for k, v in x.items())
    if isinstance(x, (list, tuple)):
        return ("seq", t.__name__) + tuple(vsnap(i, p) for i in x)
    d = attrs_of(x)
    if d is not None:
        return ("obj", t.__qualname__) + tuple((k, vsnap(v, p)) for k, v in sorted(d.items()))
    return ("opaque", t.__qualname__, _opaque(x))


def mutable_ids(x, _acc=None, _depth=0):
    """ids of all mutable containers (list / dict / objects with __dict__) reachable from x."""
    if _acc is None:
        _acc = {}
    t = type(x)
    if t in _ATOM or isinstance(x, (type, enum.Enum, types.FunctionType, types.BuiltinFunctionType)):
        return _acc
    if id(x) in _acc or _depth > 60:
        return _acc
    if t is tuple:
        for i in x:
            mutable_ids(i, _acc, _depth + 1)
        return _acc
    if isinstance(x, list):
        _acc[id(x)] = x
        for i in x:
            mutable_ids(i, _acc, _depth + 1)
    elif isinstance(x, dict):
        _acc[id(x)] = x
        for k, v in x.items():
            mutable_ids(k, _acc, _depth + 1)
            mutable_ids(v, _acc, _depth + 1)
    else:
        d = attrs_of(x)
        if d is not None:
            _acc[id(x)] = x
            for v in d.values():
                mutable_ids(v, _acc, _depth + 1)
    return _acc


def aliases(x, y, only=(list, dict)):
    """Mutable containers (by default plain lists / dicts) reachable from both x and y."""
    a, b = mutable_ids(x), mutable_ids(y)
    return [a[i] for i in a if i in b and isinstance(a[i], only)]


class WriteTracer:
    """Harness-side write tracer: records attribute writes / deletes on valida objects that
    existed *before* the traced call (transient writes included).  No source change needed:
    every class defined in ``valida.*`` gets a wrapping ``__setattr__``/``__delattr__`` for the
    duration.  The tracer holds strong references to the pre-existing objects so that the id of
    a freed object cannot be recycled by an object created during the call."""

    def __init__(self, roots):
        self.pre = {}
        for r in roots:
            mutable_ids(r, self.pre)
        self.writes = []
        self._saved = []

    _roots = None

    @classmethod
    def root_classes(cls):
        if cls._roots is None:
            import sys
            classes = set()
            for name, mod in list(sys.modules.items()):
                if name == "valida" or name.startswith("valida."):
                    for v in vars(mod).values():
                        if (
                            isinstance(v, type)
                            and v.__module__.startswith("valida")
                            and not issubclass(v, (enum.Enum, BaseException))
                        ):
                            classes.add(v)
            # install on the root classes only (those without a valida base): every valida
            # object finds exactly one wrapper through its MRO, so a write is recorded once
            cls._roots = [c for c in classes if not any(b in classes for b in c.__mro__[1:])]
        return cls._roots

    def __enter__(self):
        roots = self.root_classes()
        tracer = self

        def __setattr__(self, k, v):
            if id(self) in tracer.pre:
                tracer.writes.append((type(self).__name__, k))
            object.__setattr__(self, k, v)

        def __delattr__(self, k):
            if id(self) in tracer.pre:
                tracer.writes.append((type(self).__name__, "del " + k))
            object.__delattr__(self, k)

        for c in roots:
            if "__setattr__" in c.__dict__ or "__delattr__" in c.__dict__:
                continue  # class with its own hook: leave alone (none in valida today)
            c.__setattr__ = __setattr__
            c.__delattr__ = __delattr__
            self._saved.append(c)
        return self

    def __exit__(self, *exc):
        for c in self._saved:
            del c.__setattr__
            del c.__delattr__
        self._saved = []
        return False
