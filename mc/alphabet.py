"""Literal alphabets and document families (DESIGN 3.2).  Everything here is a plain table so
that a reader can audit what "all documents / all arguments" means for each check."""
import itertools
import pathlib

class Tok(str):
    """A string of a sub-type of str (what a round-trip YAML loader hands out for quoted scalars)."""


# ---- value alphabet V (leaves of F-type documents) and key alphabet K -------------------
V = [
    0, 1, -1, 2, 3, 1.5, 0.0, True, False, None, "", "a", "b", "1", "3", "3.0", "true", "FALSE",
    "abc", "50%", "%z", [], [1], [1, "a"], [[1]], {}, {"a": 1}, {"a": {"b": 1}}, {1: "x"},
    "inf", "-Infinity", "nan", "1e999", "1e3", "0x10", "1_000",      # strings that look like numbers to float() / int()
    " 7 ", "+5\n", -0.0, " true", "False\n",                                                   # strings int() accepts that are not plain digits
    1e200, -1.7e308, 2 ** 62, -(2 ** 63),                              # the far ends of the 64-bit range
]
K = ["a", "b", "", "1", 0, 1, -1, 1.5, True, False, None]

# a smaller value alphabet for multi-item containers
V8 = [0, 1, 1.5, True, None, "a", [1], {"a": 1}]
K5 = ["a", "b", 1, 1.5, None]

TYPES7 = [int, float, str, list, dict, bool, pathlib.Path]

# ---- single-argument alphabet for callables (C01) ------------------------------------------
ARG18 = [0, 1, 2, -1, 1.5, True, False, None, "", "a", "1", "abc", [], [1, "a"], [[1]], {}, {"a": 1},
         {"value": 3}, {"key": "a"}, {"keys": ["a"]}]   # literal mappings keyed like the callable's own parameter
ARG6 = [0, 1, 3, 1.5, "a", None]
KEYS5 = ["a", "b", 1, None, ["x"]]


# ---- F-struct(n): all documents with at most n nodes over a minimal alphabet ----------------
ATOMS = [1, "a", None]
SKEYS = ["a", 1]


def _trees(n):
    """All JSON values with exactly n nodes (a container counts 1 + its children)."""
    if n < 1:
        return
    if n == 1:
        for a in ATOMS:
            yield a
        yield []
        yield {}
        return
    # lists with children totalling n-1 nodes
    for parts in _compositions(n - 1):
        for kids in itertools.product(*[list(_trees_cached(p)) for p in parts]):
            yield list(kids)
    # dicts: ordered distinct keys from SKEYS
    for parts in _compositions(n - 1):
        if len(parts) > len(SKEYS):
            continue
        for keys in itertools.permutations(SKEYS, len(parts)):
            for kids in itertools.product(*[list(_trees_cached(p)) for p in parts]):
                yield dict(zip(keys, kids))


_cache = {}


def _trees_cached(n):
    if n not in _cache:
        _cache[n] = list(_trees(n))
    return _cache[n]


def _compositions(n):
    """Ordered compositions of n into >=1 positive parts."""
    if n == 0:
        return
    for first in range(1, n + 1):
        if first == n:
            yield (n,)
        else:
            for rest in _compositions(n - first):
                yield (first,) + rest


def f_struct(n):
    """All non-empty list / mapping documents with at most n nodes."""
    out = []
    for k in range(2, n + 1):
        for t in _trees_cached(k):
            if isinstance(t, (list, dict)) and t:
                out.append(t)
    return out


# ---- F-type: fixed small shapes whose leaves range over all of V and keys over all of K -----
def f_type_flat():
    out = []
    for v in V:
        out.append([v])
    for k in K:
        out.append({k: 1})
    for v in V:
        out.append({"a": v})
    # a few multi-item heterogeneous containers
    out.append(list(V8))
    out.append({k: v for k, v in zip(["a", "b", 1, 1.5, None, "", 0, -1], V8)})
    out.append({"a": 1, 1: "x", True: "y", 1.0: "z"})  # key collapse: one entry
    # equal values of different type next to each other, in both orders (1 == True == 1.0, 0 == False == 0.0)
    out.append(list(V))
    out.append(list(reversed(V)))
    out.append({"k%d" % i: v for i, v in enumerate(V)})
    out.append([1, True, 1.0, 0, False, 0.0])
    out.append([1.0, 1, False, 0])
    # wide containers (the exhaustive families stop at 3-5 items: these keep "only the first n items" visible)
    out.append(list(range(12)) + ["a", None, [1], {"a": 1}])
    out.append({("k%d" % i if i % 3 else i): (i if i % 2 else str(i)) for i in range(14)})
    return out


def f_type_two_level():
    out = []
    for v in V:
        out.append({"a": {"b": v}})
        out.append({"a": [v, 1]})
        out.append([{"a": v}, 1])
        out.append([[v], 1])
    for k in K:
        out.append({k: {"a": 1, "b": "x"}})
        out.append({"a": {k: 1}})
        out.append([{k: 1}])
    out.append({"a": {"b": 1, "c": 2}, "b": {"b": "x"}, 0: [1, 2], 1: {"b": None}})
    out.append([[1, 2], {"a": 1}, [], {}, "a", [{"a": 2}]])
    out.append({"a": [1, True, 1.0, 0, False, 0.0], "b": [1.0, 1]})
    out.append([{"a": 1}, 7, {"a": 2}, None, {"a": True}, [], {"a": 1.0}])
    return out


def _aliased():
    s = {"k": 1, "l": [1, "3"]}
    lst = [1, 2]
    e = {}
    return [
        [s, {"k": 2}, s], {"a": s, "b": s, "c": {"a": s}}, {"a": lst, "b": [lst, lst], 0: lst},
        [[s], [s, s]], {"a": [e, e], "b": e}, {"a": {"a": s, "b": [s]}, "b": {"a": s}},
    ]


def f_deep():
    """Three- and four-level documents with asymmetric branches: at every level a scalar, an empty
    container or a container of the other kind sits *before* (and after) a sibling that leads
    further down, with castable / uncastable strings at the leaves."""
    out = []
    for v in V:
        out.append({"x": v, "y": {"p": "8", "q": "true"}, "z": v})
        out.append([v, {"a": "8"}, ["true", {"a": 1}]])
    out += [
        {"meta": {"version": 5}, "runs": {"r1": [[1, 2, 3], [4]], "r2": []}},
        {"servers": ["localhost", {"port": "8080"}, None, {"port": "x"}]},
        {"a": {"b": {"c": 1, "d": [1, {"e": "2"}]}, "e": 5}, "b": {"b": []}, "c": [[{"a": "true"}], [[1]]]},
        [[{"a": 1}], [[1]], {"a": [{"a": 2}, 3]}, "s", []],
        {"a": [1, [2, [3, [4]]]], 0: {0: {0: "0"}}, 1: [{1: "1"}, 1]},
        {"k": {"a": 1}, "l": {"a": {"a": 1}}, "m": {"a": {"a": {"a": "1"}}}},
        [{"a": []}, {"a": [0]}, {"a": [[]]}, {"a": [[0]]}, {"a": {}}],
        {"a": {"x": 1}, "b": {"y": [1]}, "c": 1, "d": {"y": [2, 3]}},
        # the same container object at several positions (what a YAML anchor / alias loads as)
        *_aliased(),
        # wide and deep: 12 siblings per level, 6 levels
        {"a": [{"a": i, "b": [i, str(i)]} for i in range(12)], "b": {("k%d" % i): [i] for i in range(12)}},
        {"a": {"a": {"a": {"a": {"a": {"a": 1, "b": "3"}}, "b": [[[[["true"]]]]]}}}, 0: [[[[[[0]]]]]]},
    ]
    return out
