"""S-space explorer (C08): every interleaving of 2 real threads running valida calls on shared
objects, under a cooperative scheduler that owns every switch, up to a preemption bound
(CHESS-style iterative context bounding).  DESIGN 3.6.

* each thread installs a ``sys.settrace`` function; at every ``line`` event inside
  ``valida/*.py`` (or only at "write-ish" lines and the line following each, see ``write_points``) it reaches a scheduling
  point and hands a baton (per-thread semaphore) to whichever thread the schedule names;
  exactly one thread runs at a time, so a schedule (list of choices) is replayable;
* a choice is an index into the enabled threads in canonical order (running thread first, then
  ascending ids); choice 0 everywhere = run each thread to completion in turn;
* in the "write+op" point set every bytecode boundary *inside* a write-ish line is a scheduling point as well
  (``frame.f_trace_opcodes``), so a check-then-act written on one line can be torn;
* switching away from a thread that could continue is a preemption; executions always run to
  completion; exploration covers every schedule with <= bound preemptions;
* every execution runs in a freshly forked process (the library's pristine module state), so races on
  first-use initialisation of module-level state are explored in every schedule;
* determinism is proven per run by executing one schedule twice (identical point sequences and
  observations); a divergence while replaying a prefix is a hard harness error.
"""
import dis
import os
import sys
import threading

import mc  # noqa
from mc.snapshot import snap

import valida

VALIDA_DIR = os.path.dirname(os.path.abspath(valida.__file__)) + os.sep
HORIZON = 50000


class Divergence(Exception):
    pass


_WRITE_OPS = {"STORE_ATTR", "STORE_SUBSCR", "STORE_GLOBAL", "DELETE_ATTR", "DELETE_SUBSCR", "DELETE_GLOBAL", "STORE_DEREF"}
_WRITE_CALLS = {"append", "extend", "pop", "update", "insert", "remove", "clear", "setdefault", "add", "discard", "sort",
                "reverse", "popitem", "extract_paths"}
_points_cache = None
_write_codes = set()   # (filename, co_firstlineno) of code objects that contain a write-ish line


def write_points():
    """(filename, line) of every line in valida whose bytecode may write non-local state."""
    global _points_cache
    if _points_cache is not None:
        return _points_cache
    pts = set()

    def scan(code):
        line = None
        for ins in dis.get_instructions(code):
            if ins.starts_line is not None:
                line = ins.starts_line if not isinstance(ins.starts_line, bool) else line
            if getattr(ins, "positions", None) and ins.positions.lineno:
                line = ins.positions.lineno
            if ins.opname in _WRITE_OPS or (ins.opname in ("LOAD_ATTR", "LOAD_METHOD") and ins.argval in _WRITE_CALLS):
                pts.add((code.co_filename, line))
                _write_codes.add((code.co_filename, code.co_firstlineno))
        for c in code.co_consts:
            if hasattr(c, "co_code"):
                scan(c)

    for name, mod in list(sys.modules.items()):
        f = getattr(mod, "__file__", None)
        if f and f.startswith(VALIDA_DIR) and f.endswith(".py"):
            with open(f) as fh:
                scan(compile(fh.read(), f, "exec"))
    _points_cache = pts
    return pts


class Execution:
    def __init__(self):
        self.points = []     # per scheduling point: (enabled tuple, running_still_enabled, chosen index)
        self.choices = []
        self.trace = []      # (tid, file, line) of every scheduling point (for the determinism proof)
        self.obs = None
        self.preemptions = 0


class Scheduler:
    """Runs `bodies` (callables) as threads under schedule `prefix` (then choice 0)."""

    def __init__(self, bodies, prefix, point_filter=None, opcodes=False):
        self.opcodes = opcodes
        self.bodies = bodies
        self.prefix = list(prefix)
        self.filter = point_filter
        self.n = len(bodies)
        self.sems = [threading.Semaphore(0) for _ in bodies]
        self.done = [False] * self.n
        self.results = [None] * self.n
        self.x = Execution()
        self.finished = threading.Event()
        self.error = None
        self.steps = 0

    # -- decision --------------------------------------------------------------------------
    def decide(self, running, running_enabled, where):
        enabled = [t for t in range(self.n) if not self.done[t]]
        if running_enabled and running in enabled:
            enabled.remove(running)
            enabled.insert(0, running)
        i = len(self.x.choices)
        if i < len(self.prefix):
            c = self.prefix[i]
            if c >= len(enabled):
                raise Divergence("replayed choice %d at point %d but only %d threads are enabled" % (c, i, len(enabled)))
        else:
            c = 0
        self.x.points.append((tuple(enabled), bool(running_enabled and len(enabled) > 1)))
        self.x.choices.append(c)
        self.x.trace.append(where)
        if c != 0 and running_enabled:
            self.x.preemptions += 1
        return enabled[c]

    # -- per-thread machinery --------------------------------------------------------------
    def yield_point(self, tid, where):
        self.steps += 1
        if self.steps > HORIZON:
            raise Divergence("horizon of %d scheduling points exceeded (livelock?)" % HORIZON)
        nxt = self.decide(tid, True, where)
        if nxt != tid:
            self.sems[nxt].release()
            self.sems[tid].acquire()

    def make_tracer(self, tid):
        flt = self.filter

        after_write = [False]
        opcodes = self.opcodes

        def local(frame, event, arg):
            if event == "line":
                key = (frame.f_code.co_filename, frame.f_lineno)
                # a scheduling point before every write-ish line and at the line that follows one (so that the
                # other thread can run in the window between a write and what this thread does next)
                is_write = flt is not None and key in flt
                if flt is None or is_write or after_write[0]:
                    after_write[0] = is_write
                    self.yield_point(tid, (tid,) + key)
            elif event == "opcode":
                # inside a write-ish line every bytecode boundary is a scheduling point too (check-then-act written
                # on one line, e.g. `del d[next(iter(d))]`); opcode events are switched on per frame at its call
                # event (switching them on from inside a running frame does not take effect reliably)
                if (frame.f_code.co_filename, frame.f_lineno) in flt:
                    self.yield_point(tid, (tid, frame.f_code.co_filename, frame.f_lineno, frame.f_lasti))
            return local

        def glob(frame, event, arg):
            if event == "call" and frame.f_code.co_filename.startswith(VALIDA_DIR):
                if opcodes and flt is not None and (frame.f_code.co_filename, frame.f_code.co_firstlineno) in _write_codes:
                    frame.f_trace_opcodes = True   # only frames whose code contains a write-ish line pay for opcode events
                return local
            return None
        return glob

    def run_thread(self, tid):
        self.sems[tid].acquire()          # wait to be scheduled for the first time
        try:
            sys.settrace(self.make_tracer(tid))
            try:
                self.results[tid] = ("ok", self.bodies[tid]())
            except Divergence as e:
                self.error = e
            except BaseException as e:   # an observation, not a crash of the checker
                self.results[tid] = ("raises", type(e).__name__, str(e)[:100])
            finally:
                sys.settrace(None)
        finally:
            self.done[tid] = True
            try:
                if all(self.done) or self.error is not None:
                    self.finished.set()
                    for s in self.sems:   # let blocked threads (error case) go
                        s.release()
                else:
                    nxt = self.decide(tid, False, (tid, "<end>", 0))
                    self.sems[nxt].release()
            except Divergence as e:
                self.error = e
                self.finished.set()
                for s in self.sems:
                    s.release()

    def run(self):
        threads = [threading.Thread(target=self.run_thread, args=(t,), daemon=True) for t in range(self.n)]
        for t in threads:
            t.start()
        first = self.decide(-1, False, (-1, "<start>", 0))
        self.sems[first].release()
        if not self.finished.wait(120):
            raise Divergence("execution did not finish (deadlock)")
        for t in threads:
            t.join(5)
        if self.error is not None:
            raise self.error
        self.x.obs = list(self.results)
        return self.x


OPCODES = False   # set by run_unit for units that explore at bytecode granularity inside write-ish lines


def _prime_opcode_tracing():
    """CPython 3.12 delivers no 'opcode' events to the first frame that asks for them in a process (the instrumentation is
    installed lazily); tracing a dummy function once makes them reliable for everything that follows."""
    def dummy(x):
        return x

    def local(frame, event, arg):
        return local

    def glob(frame, event, arg):
        if event == "call":
            frame.f_trace_opcodes = True
            return local
    sys.settrace(glob)
    try:
        dummy(0)
    finally:
        sys.settrace(None)


def _run_schedule_here(make_bodies, prefix, point_filter):
    if OPCODES:
        _prime_opcode_tracing()
    bodies, finish = make_bodies()
    x = Scheduler(bodies, prefix, point_filter, opcodes=OPCODES).run()
    x.world = finish()
    return x


class _Plain:
    pass


def _run_schedule_packed(make_bodies, prefix, point_filter):
    x = _run_schedule_here(make_bodies, prefix, point_filter)
    return (x.points, x.choices, x.trace, x.obs, x.preemptions, x.world)


def run_schedule(make_bodies, prefix, point_filter=None, pristine=False):
    """make_bodies() -> (bodies, finish) builds a *fresh* world per execution; finish() returns
    what must be compared besides the threads' own results (e.g. the world's snapshot).
    pristine=True: the execution runs in a freshly forked process, i.e. from the library's initial
    module state (first-use initialisation races are then explored in every schedule, not only in
    the first execution of the process)."""
    if not pristine:
        return _run_schedule_here(make_bodies, prefix, point_filter)
    from mc.fresh import run_fresh
    x = _Plain()
    x.points, x.choices, x.trace, x.obs, x.preemptions, x.world = run_fresh(_run_schedule_packed, make_bodies, prefix, point_filter)
    return x


def explore(make_bodies, bound, check, point_filter=None, first=0, shard=(0, 1), stats=None, pristine=False):
    """Every schedule with <= bound preemptions whose first choice (which thread starts) is `first`.
    shard=(k, n): of the points at which the default continuation can be preempted, only the k-th of n equal
    slices is used for the *first* deviation (sharding over processes; the un-deviated schedule belongs to k == 0)."""
    def rec(prefix, depth):
        x = run_schedule(make_bodies, prefix, point_filter, pristine)
        if stats is not None:
            stats["schedules"] = stats.get("schedules", 0) + 1
            stats["points"] = stats.get("points", 0) + len(x.points)
            stats["max_preemptions"] = max(stats.get("max_preemptions", 0), x.preemptions)
        if depth > 0 or shard[0] == 0:
            if not check(x):
                return False
        start = len(prefix)
        cand = [i for i, (enabled, preemptible) in enumerate(x.points) if i >= start and len(enabled) > 1]
        if depth == 0:
            k, n = shard
            cand = cand[(len(cand) * k) // n: (len(cand) * (k + 1)) // n]
        pre = sum(1 for i in range(start) if x.choices[i] != 0 and x.points[i][1])
        for i in cand:
            enabled, preemptible = x.points[i]
            # preemptions between the prefix and i are none (choices there are all 0)
            cost = pre + (1 if preemptible else 0)
            if cost > bound:
                continue
            for alt in range(1, len(enabled)):
                if not rec(x.choices[:i] + [alt], depth + 1):
                    return False
        return True

    return rec([first], 0)


# ------------------------------------------------------------------------------ C08 harnesses
def _c08():
    from mc.props import c08
    return c08


HARNESSES = {
    # name: (ops of thread 0, ops of thread 1) as indices into c08.MENU (by name, document)
    "same-schema-same-doc": ([("validate cast", 0)], [("validate cast", 0)]),
    "same-schema-two-docs": ([("validate cast", 0)], [("validate cast", 1)]),
    "validate-vs-rule-test": ([("validate path", 0)], [("test r5", 0), ("test r6", 0)]),
    "get-vs-filter-vs-validate": ([("get part paths", 0), ("filter a&b", 1)], [("part.filter", 0), ("validate path", 2)]),
    "rule-twice-vs-validate": ([("test r1", 0), ("test r1", 0)], [("validate cast", 0)]),
    "two-filters": ([("filter a&b", 0)], [("filter a&b", 0)]),
    "part-combinations": ([("part.filter", 0), ("part2.filter", 1)], [("part2.filter", 0), ("part.filter", 1)]),
    "same-rule-twice": ([("test r1", 0)], [("test r1", 0)]),
    "warm-cast-race": ([("validate one", 0)], [("validate one", 1)]),   # a small cast race after a 1500-string warm-up
}
# two preemptions: the three smallest harnesses (0.3-0.7 k points -> 4*10^5 schedules); for the larger ones
# (1.2-2.6 k points -> 10^6+ schedules each at ~15 ms) bound 2 is not run -- stated in the evidence, not capped silently
BOUND2 = ("two-filters", "same-rule-twice", "part-combinations")


def _op_index(name, di):
    c08 = _c08()
    for i, m in enumerate(c08.MENU):
        if m[0] == name and m[1] == di:
            return i
    raise KeyError((name, di))


def _warm_up(w):
    """A large sequential warm-up before the race (untraced): fills any capacity-bounded structure the library may
    keep (memo tables with eviction, pools) so that the racing calls hit its 'full' code path."""
    from valida import Schema, Rule, Value
    from valida.datapath import ListValue
    big = [str(i) for i in range(1200)] + ["t%d" % i for i in range(300)]
    Schema([Rule([ListValue()], Value.dtype.equal_to(int), cast=dict(_c08().INT)),
            Rule([ListValue()], Value.null(), cast=dict(_c08().BOOL))]).validate(big)
    w.s_cast.validate({"m": {"x": "5000", "flag": "TRUE"}, 0: "6000"})


def make_harness(hname):
    c08 = _c08()
    t0, t1 = HARNESSES[hname]
    ops = [[_op_index(*o) for o in t0], [_op_index(*o) for o in t1]]
    warm = hname.startswith("warm-")

    def make_bodies():
        w = c08.World()
        if warm:
            _warm_up(w)
        roots = w.roots()
        init = snap(roots)

        def body(seq):
            def run():
                return [c08.run_op(w, oi) for oi in seq]
            return run

        def finish():
            return snap(roots) == init
        return [body(ops[0]), body(ops[1])], finish

    # (computed in a pristine child too, so that this process itself never runs code under test)
    from mc.fresh import run_fresh
    expected = run_fresh(lambda: [[c08.expected(oi) for oi in seq] for seq in ops])
    return make_bodies, expected, ops


OPCODE_QUICK = ("two-filters", "warm-cast-race")


def units(tier):
    u = []
    for h in HARNESSES:
        for first in (0, 1):
            if tier == "quick":
                pts = "write+op" if h in OPCODE_QUICK else "write"
                u += [["S", h, 1, pts, first, k, 6] for k in range(6)]
            else:
                u += [["S", h, 1, "all", first, k, 12] for k in range(12)]
                u += [["S", h, 1, "write+op", first, k, 12] for k in range(12)]
                if h in BOUND2:
                    u += [["S", h, 2, "write", first, k, 24] for k in range(24)]
    u.append(["S-determinism"])
    return u


def run_unit(res, unit, tier):
    if unit[0] == "S-determinism":
        determinism(res)
        return
    global OPCODES
    _, hname, bound, pts, first, k, nshards = unit
    flt = write_points() if pts.startswith("write") else None
    OPCODES = pts.endswith("+op")
    try:
        make_bodies, expected, ops = make_harness(hname)
        x0 = run_schedule(make_bodies, [first], flt, pristine=True)
    except Divergence:
        raise
    except BaseException as e:   # the shared world cannot even be built / run sequentially: C08's H part reports why
        res.violation("S:world-build:%s" % type(e).__name__, "the harness world could not be built or run: %r" % (str(e)[-300:],),
                      {"kind": "H", "ops": []}, observed=str(e)[-300:])
        return
    n = len(x0.points)
    stats = {}
    outcomes = set()

    def check(x):
        res.count("evaluations")
        res.count("transitions", len(x.points))
        case = {"kind": "S", "harness": hname, "schedule": list(x.choices[: _last_dev(x.choices) + 1]), "points": pts}
        got = [list(r[1]) if r and r[0] == "ok" else r for r in x.obs]
        outcomes.add(repr(got)[:200])
        for tid in (0, 1):
            if got[tid] != expected[tid]:
                res.violation("S:result:%s" % hname, "under schedule %r (%d preemptions) thread %d of harness %s observed a "
                              "result different from its sequential result" % (case["schedule"], x.preemptions, tid, hname),
                              case, observed=got[tid], expected=expected[tid])
                return False
        if not x.world:
            res.violation("S:state:%s" % hname, "under schedule %r the shared world changed" % (case["schedule"],), case)
            return False
        res.count("validated")
        if x.preemptions:
            res.count("nontrivial")
        return True

    explore(make_bodies, bound, check, flt, first=first, shard=(k, nshards), stats=stats, pristine=True)
    res.states.add(hash(("S", hname, "world-unchanged")))
    for o in outcomes:
        res.outcome(o)
    res.count("schedule_points_total", stats.get("points", 0))
    if k == 0 and first == 0:
        res.sample({"kind": "S", "harness": hname, "schedule": [0, 0, 1], "points": pts, "points_in_default_schedule": n})


def _last_dev(choices):
    last = -1
    for i, c in enumerate(choices):
        if c:
            last = i
    return last


def determinism(res):
    """Replay one schedule with a preemption twice: identical point sequences and observations."""
    for hname in HARNESSES:
        try:
            make_bodies, expected, ops = make_harness(hname)
            x0 = run_schedule(make_bodies, [], write_points(), pristine=True)
        except Divergence:
            raise
        except BaseException:
            return   # reported by the exploration units
        first_len = next(i for i, t in enumerate(x0.trace) if t[1] == "<end>")   # thread 0 ends here in the default schedule
        mid = [0] * (first_len // 2) + [1]                                           # preempt thread 0 half-way
        a = run_schedule(make_bodies, mid, write_points(), pristine=True)
        b = run_schedule(make_bodies, mid, write_points(), pristine=True)
        res.count("evaluations", 2)
        res.count("transitions", len(a.points) + len(b.points))
        if a.trace != b.trace or repr(a.obs) != repr(b.obs) or a.choices != b.choices:
            raise Divergence("schedule %r of harness %s is not deterministic" % (mid, hname))
        res.count("validated")


def replay(res, case):
    global OPCODES
    make_bodies, expected, ops = make_harness(case["harness"])
    flt = write_points() if str(case.get("points", "")).startswith("write") else None
    OPCODES = str(case.get("points", "")).endswith("+op")
    x = run_schedule(make_bodies, case["schedule"], flt, pristine=True)
    got = [list(r[1]) if r and r[0] == "ok" else r for r in x.obs]
    for tid in (0, 1):
        if got[tid] != expected[tid]:
            res.violation("S:result:%s" % case["harness"], "thread %d observed a result different from its sequential result" % tid,
                          case, observed=got[tid], expected=expected[tid])
            return
    if not x.world:
        res.violation("S:state:%s" % case["harness"], "the shared world changed", case)
