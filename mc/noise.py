"""Parser "noise": a fixed list of malformed or unusual specs that are fed to the parsers (exceptions swallowed) *before*
a check's cases run, in a dedicated unit.  A rejected spec must leave no trace: whatever is parsed afterwards must still
mean what it means in a pristine process.  (Seeded changes that cache signature information and patch it while handling
an odd spelling only misbehave after such a spec has been seen.)"""
from valida.conditions import ConditionLike
from valida.datapath import DataPath, ContainerValue
from valida.rules import Rule

COND_NOISE = [
    {"value.equal_to_approx": 1.5}, {"value.in_range": 3}, {"value.keys_contain_N_of": 1}, {"key.equal_to_approx": 2},
    {"value.length.equal_to_approx": 1}, {"value.in_range": [1]}, {"value.in_range": [1, 2, 3]}, {"value.equal_to_approx": [3.0]},
    {"value.equal_to_approx": {"value": 1}}, {"value.in_range": {"lower": 1}}, {"value.items_contain": [1]},
    {"value.keys_contain_any_of": "a"}, {"value.is_instance": "integer"}, {"value.dtype.equal_to": "strr"},
    {"value.flatten": None}, {"valu.equal_to": 1}, {"value.size.equal_to": 1}, {"index.length.equal_to": 1},
    {"and": {"value.lt": 1}}, {"value.truthy": 5}, {"value.equal_to": {"path.bogus": ["a"]}}, {"value.equal_to": {"path": 5}},
    {"value.in": [{"path": ["a", {"type": "bogus"}]}]}, {1: 2}, {"value.equal_to": 1, "value.lt": 2}, [], "x", None,
]
PART_NOISE = [{"type": "set_value"}, {"type": "map_value", "foo": 1}, {"type": "map_value", "index": {"index.eq": 0}}, 5,
              {"type": 1}, {"key.equal_to_approx": 1.5}, {"type": "list_value", "value": {"key.eq": "a"}}]
PATH_NOISE = [{"path.simplify": ["a"]}, {"path.first": ["a", "b"]}, {"path.length.length": ["a"]}, {"paths": ["a"]}, {"path": 5},
              {"path.first.last": [{"type": "map_value"}]}, {"path": ["a"], "path.first": ["b"]}]
RULE_NOISE = [{"path": ["a"]}, {"condition": {}}, {"path": ["a"], "condition": {}, "cast": {"int": "str"}},
              {"path": ["a"], "condition": {}, "cast": 5}, {"path": ["a"], "condition": {}, "doc": {"description": [1]}},
              {"path": ["a"], "condition": {"value.equal_to_approx": 2.5}}]


def make_noise():
    n = 0
    for fn, specs in ((ConditionLike.from_spec, COND_NOISE), (ContainerValue.from_spec, PART_NOISE),
                      (DataPath.from_spec, PATH_NOISE), (Rule.from_spec, RULE_NOISE)):
        for s in specs:
            try:
                fn(_copy(s))
            except BaseException:
                pass
            n += 1
    return n


def _copy(x):
    if isinstance(x, dict):
        return {k: _copy(v) for k, v in x.items()}
    if isinstance(x, list):
        return [_copy(i) for i in x]
    return x
