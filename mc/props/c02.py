"""C02 -- and/or/xor are pointwise Boolean algebra with null as identity; operands unaltered.

T part: all and/or/xor trees up to a depth bound over a 7-leaf pool (null in every position),
built three ways (operators, class constructors, spec lists), judged relationally on the
operands' own results and absolutely by the reference model.
H part: explicit-state BFS over combine-histories on a pool of *shared live* operand objects;
after every transition every pool member must have its original snapshot and results.
"""
import itertools
import operator

from mc import terms as T, ref
from mc.enc import fresh
from mc.run import Result
from mc.snapshot import vsnap
from mc.snapshot import snap

from valida import conditions as C

META = {
    "rule": "T: every tree (depth bound) over {null,v1,v2,v3,k1,i1,Value.null()} x 3 construction ways x documents; "
            "H: every history of combine(op, i, j, way) transitions on a pool of shared live conditions "
            "(state = identity-aware snapshot of the pool, merged when equal); non-trivial = the tree has "
            "at least one operator and its result vector was compared with the pointwise combination",
    "assumptions": ["leaf results themselves are C01's business; here only the combination is judged",
                    "H part at the last level explores only transitions touching a member created by the "
                    "history (transitions between untouched initial members are covered at level 1, "
                    "given that every member's snapshot is verified unchanged after every transition)"],
    "bounds": {"quick": {"tree_depth": 2, "spec_list_arity": "0-3 exhaustive over 5 operands, 4-6 over 3, 7-9 over 2, 10-20 with one distinguished operand at every position", "history_depth": 2},
               "thorough": {"tree_depth": 3, "spec_list_arity": "0-3 exhaustive over 5 operands, 4-6 over 3, 7-12 over 2, 13-40 with one distinguished operand at every position", "history_depth": 3}},
    "technique": "explicit-state BFS over operation histories on shared live objects + exhaustive "
                 "term x document enumeration, relational and reference-model oracles",
}

LEAVES = {
    "null": T.NULL,
    "v1": T.leaf("Value", "less_than", 2),
    "v2": T.leaf("Value", "greater_than", 2),
    "v3": T.leaf("Value", "equal_to", 3),
    "k1": T.leaf("Key", "in_", ["a", "b"]),
    "i1": T.leaf("Index", "less_than", 2),
    "vn": T.leaf("Value", "null"),   # an ordinary always-true condition: NOT the null condition
}
MEMB = [T.leaf("Value", "in_", [1, 2]), T.leaf("Value", "in_", [3, 5, "a"]), T.leaf("Value", "not_in", [1, 2]), T.leaf("Value", "not_in", [2, 3]),
        T.leaf("Key", "in_", ["a", "b"]), T.leaf("Key", "in_", ["c", 1]), T.leaf("Key", "not_in", ["a"]), T.leaf("Index", "in_", [0, 1]),
        T.leaf("Index", "in_", [2, 4]), T.leaf("Index", "not_in", [0]), T.leaf("Value", "in_range", 1, 3), T.leaf("Value", "in_range", 2, 6),
        T.leaf("Value", "keys_contain_any_of", "a"), T.leaf("Value", "keys_contain_any_of", "k")]
IOPS = {"and": operator.iand, "or": operator.ior, "xor": operator.ixor}
OPS = {"and": operator.and_, "or": operator.or_, "xor": operator.xor}
CLS = {"and": C.ConditionAnd, "or": C.ConditionOr, "xor": C.ConditionXor}
LIST_DOCS = [[1, 2, 3, 5, "a"], [3], [None, [1], {"a": 1}, 0.5]]
MAP_DOCS = [{"a": 1, "b": 2, "c": 3, "d": 5, 1: "a"}, {"b": 3}, {"z": None, "a": [1], 0: {"a": 1}}]


def trees(depth):
    cur = list(LEAVES.values())
    if depth <= 1:
        return cur
    sub = trees(depth - 1)
    out = list(sub)
    seen = set(repr(x) for x in out)
    for op in OPS:
        for a in sub:
            for b in sub:
                t = (op, a, b)
                if repr(t) not in seen:
                    seen.add(repr(t))
                    out.append(t)
    return out


def spec_of(t):
    if t[0] == "null":
        return {}
    if t[0] == "leaf":
        from mc import specs as S
        return S.cond_spec(t)
    return {t[0]: [spec_of(t[1]), spec_of(t[2])]}


def build_ctor(t):
    if t[0] in OPS:
        return CLS[t[0]](build_ctor(t[1]), build_ctor(t[2]))
    return T.build_cond(t)


WAYS = {
    "operator": T.build_cond,
    "constructor": build_ctor,
    "spec": lambda t: C.ConditionLike.from_spec(spec_of(t)),
}


def impl_leaf_result(t, doc):
    if t[0] == "null":
        return [True] * len(doc)
    return T.build_cond(t).filter(fresh(doc)).result   # (public API only: private names may be refactored freely)


def is_null_term(t):
    return t[0] == "null" or (t[0] in OPS and is_null_term(t[1]) and is_null_term(t[2]))


def expected_rel(t, doc, memo):
    """Pointwise combination of the implementation's own leaf results."""
    if t[0] in OPS:
        # null is the identity of every operator (statement: "combining with the null
        # condition on either side gives the other operand's behaviour")
        if is_null_term(t[1]):
            return expected_rel(t[2], doc, memo)
        if is_null_term(t[2]):
            return expected_rel(t[1], doc, memo)
        a = expected_rel(t[1], doc, memo)
        b = expected_rel(t[2], doc, memo)
        return [OPS[t[0]](x, y) for x, y in zip(a, b)]
    k = id(t)
    if k not in memo:
        memo[k] = impl_leaf_result(t, doc)
    return memo[k]


def prepare(tier):
    trees(2 if tier == "quick" else 3)


PREP_LEAVES = [T.leaf("KeyLength", "equal_to", 1), T.leaf("ValueLength", "equal_to", 3), T.leaf("KeyDataType", "equal_to", str),
               T.leaf("ValueDataType", "equal_to", str), T.leaf("ValueLength", "less_than", 3), T.NULL, LEAVES["v1"]]
PREP_DOCS = [{"ab": [1, 2, 3], "c": "xyz", 1: "ab", "d": 5}, {"a": "abc", "bc": [1]}]


def prep_trees():
    out = []
    for op in OPS:
        for a in PREP_LEAVES:
            for b in PREP_LEAVES:
                out.append((op, a, b))
                if a[0] != "null" and b[0] != "null":
                    out.append((op, (op, a, b), PREP_LEAVES[1]))
                    out.append((op, PREP_LEAVES[0], ("or" if op != "or" else "and", b, a)))
    return out


def units(tier):
    depth = 2 if tier == "quick" else 3
    n = len(trees(depth))
    chunk = 40 if tier == "quick" else 400
    u = [["T", way, i, min(i + chunk, n)] for way in WAYS for i in range(0, n, chunk)]
    u += [["N", 0], ["PREP"], ["MEMB"], ["SRC"]] + [["NL", op] for op in OPS]
    hist_depth = 2 if tier == "quick" else 3
    # H part: one unit per first transition (prefix partition)
    u += [["H", hist_depth, i] for i in range(len(h_menu(len(h_initial_terms()))))]
    return u


def run_unit(unit, tier):
    res = Result()
    if unit[0] == "T":
        _, way, lo, hi = unit
        ts = trees(2 if tier == "quick" else 3)
        for i in range(lo, hi):
            check_tree(res, ts[i], way, key=("T", way, i))
        res.sample({"kind": "T", "tree": ts[lo], "way": way})
    elif unit[0] == "SRC":
        # operands with a data-path argument in every position of a combination, filtered with source data: the same as
        # the combination with the resolved literal
        pa = T.leaf("Value", "less_than", ("$path", T.path((("prim", "limit"),))))
        lit = T.leaf("Value", "less_than", 3)
        v1, v2 = LEAVES["v2"], LEAVES["v3"]
        src = {"limit": 3, "x": [1]}
        shapes_ = lambda a: [(op, v1, a) for op in OPS] + [(op, a, v1) for op in OPS] + [(op, T.NULL, a) for op in OPS] + \
            [(op, (op2, v1, v2), a) for op in OPS for op2 in OPS] + [(op, v1, (op2, v2, a)) for op in OPS for op2 in OPS] + \
            [(op, a, a) for op in OPS]
        for i, (tp, tl) in enumerate(zip(shapes_(pa), shapes_(lit))):
            res.count("evaluations")
            res.state("SRC", i)
            case = {"kind": "T", "tree": tp, "way": "operator", "src": True}
            for way in ("operator", "spec"):
                for doc in LIST_DOCS + MAP_DOCS:
                    res.count("transitions", 2)
                    try:
                        a = WAYS[way](tp).filter(fresh(doc), source_data=fresh(src)).result
                        b = WAYS["operator"](tl).filter(fresh(doc)).result
                    except BaseException as e:
                        a, b = "raises " + type(e).__name__, None
                    if a != b:
                        res.violation("source-data:%s" % way, "%s filtered with source data %r on %r differs from the same combination "
                                      "with the resolved literal" % (T.show(tp), src, doc), case, observed=a, expected=b)
                        break
                else:
                    continue
                break
            else:
                res.count("validated")
                res.count("nontrivial")
    elif unit[0] == "MEMB":
        # membership / range / key-set leaves (list arguments the condition keeps) in every pair and operator
        for i, (op, a, b) in enumerate(itertools.product(OPS, MEMB, MEMB)):
            check_tree(res, (op, a, b), "operator", key=("MEMB", i))
            check_tree(res, (op, a, b), "spec", key=("MEMB", i, "spec"))
    elif unit[0] == "PREP":
        for i, t in enumerate(prep_trees()):
            for way in ("operator", "spec"):
                check_tree(res, t, way, key=("PREP", way, i), docs_override=PREP_DOCS)
    elif unit[0] == "N":
        for op in OPS:
            for n in range(0, 4):
                for tup in itertools.product(["null", "v1", "v2", "k1", "vn"], repeat=n):
                    check_nary(res, op, tup)
    elif unit[0] == "NL":
        # longer spec lists: every operand list of length 4..6 over three operands with distinct
        # result vectors, of length 7..N2 over two, and -- up to length N1 -- every list in which one
        # operand at any one position differs from all the others (both ways round)
        op = unit[1]
        n2, n1 = (9, 20) if tier == "quick" else (12, 40)
        for n in range(4, 7):
            for tup in itertools.product(["v1", "v3", "vn"], repeat=n):
                check_nary(res, op, tup)
        for n in range(7, n2 + 1):
            for tup in itertools.product(["v1", "v2"], repeat=n):
                check_nary(res, op, tup)
        for n in range(n2 + 1, n1 + 1):
            for a, b in (("v1", "v2"), ("v2", "v1"), ("vn", "v1"), ("v3", "null")):
                for pos in range(n):
                    check_nary(res, op, tuple(b if i == pos else a for i in range(n)))
    else:
        _, depth, first = unit
        h_explore(res, depth, first)
    return res


def replay(case):
    res = Result()
    if case["kind"] == "T":
        check_tree(res, case["tree"], case["way"], key=("replay",), docs_override=PREP_DOCS if case.get("prep") else None)
    elif case["kind"] == "N":
        check_nary(res, case["op"], tuple(case["operands"]))
    else:
        h_replay(res, case["history"])
    return list(res.violations.values())


def _shape(t):
    if t[0] in OPS:
        return "(%s %s %s)" % (_shape(t[1]), t[0], _shape(t[2]))
    return "null" if t[0] == "null" else T.KIND[t[1]][0]


def check_tree(res, t, way, key, docs_override=None):
    res.count("evaluations")
    res.state(*key)
    case = {"kind": "T", "tree": t, "way": way}
    if docs_override is not None:
        case["prep"] = True
    kinds = T.cond_kinds(t)
    mixed = "key" in kinds and "index" in kinds
    res.count("transitions")
    try:
        c = WAYS[way](t)
    except TypeError as e:
        if mixed:
            res.count("mixed_refused")
            return
        res.violation("build:%s:TypeError:%s" % (way, _shape(t)), "building %s (%s) raised %r" % (T.show(t), way, e), case,
                      observed=repr(e))
        return
    except BaseException as e:
        res.violation("build:%s:%s" % (way, type(e).__name__), "building %s (%s) raised %r" % (T.show(t), way, e),
                      case, observed=repr(e))
        return
    if mixed:
        res.violation("mixed-accepted:%s" % way, "a Key/Index mixture was accepted: %s" % T.show(t), case)
        return
    docs = []
    if "index" not in kinds:
        docs += MAP_DOCS
    if "key" not in kinds:
        docs += LIST_DOCS
    if docs_override is not None:
        docs = docs_override
    nontrivial = t[0] in OPS
    for doc in docs:
        d = fresh(doc)
        res.count("transitions")
        try:
            got = c.filter(d).result
        except BaseException as e:
            if t[0] == "leaf" and isinstance(e, TypeError):
                continue  # bare Key/Index leaf on the other container kind (C01)
            res.violation("filter:%s:%s" % (way, type(e).__name__),
                          "%s (%s) raised %r on %r" % (T.show(t), way, e, doc), case, observed=repr(e))
            return
        want_rel = expected_rel(t, doc, {})
        want_abs = [ref.eval_cond(t, k, v)[0] for k, v in ref.items_of(doc)]
        if got != want_rel:
            res.violation("pointwise:%s" % way, "%s on %r is not the pointwise combination of its operands' results"
                          % (T.show(t), doc), case, observed=got, expected=want_rel)
            return
        if got != want_abs:
            res.violation("reference:%s" % way, "%s on %r differs from the reference model" % (T.show(t), doc), case,
                          observed=got, expected=want_abs)
            return
        # the filtered view of a combination: selected values / keys / failure indices are the partition induced by the
        # booleans, in document order
        try:
            fdv = c.filter(fresh(doc))
            items = ref.items_of(doc)
            view = ([vsnap(x) for x in fdv.data], [vsnap(x) for x in fdv.keys], list(fdv.failure_indices))
            wantv = ([vsnap(v) for (k, v), r in zip(items, got) if r], [vsnap(k) for (k, v), r in zip(items, got) if r],
                     [i for i, r in enumerate(got) if not r])
        except BaseException as e:
            view, wantv = ("raises", repr(e)), None
        if view != wantv:
            res.violation("view:%s" % way, "the filtered view of %s on %r is not the partition induced by its result" % (T.show(t), doc),
                          case, observed=view, expected=wantv)
            return
        # the way rule tests ask: the items handed over as (value, concrete path) pairs
        # (value-kind trees only: that calling convention hands index-kind leaves a pair instead of an index -- on the
        # unchanged tree `Index.less_than(2)` refuses such data with TypeError -- and no statement speaks about it)
        if isinstance(doc, list) and kinds <= {"value"}:
            res.count("transitions")
            try:
                gp = c.filter([(v, (i,)) for i, v in enumerate(fresh(doc))], data_has_paths=True).result
            except BaseException as e:
                res.violation("with-paths:%s:%s" % (way, type(e).__name__), "%s filtering (value, path) pairs of %r raised %r"
                              % (T.show(t), doc, e), case, observed=repr(e))
                return
            if gp != got:
                res.violation("with-paths:%s" % way, "%s gives %r on the (value, path) pairs of %r but %r on the values"
                              % (T.show(t), gp, doc, got), case, observed=gp, expected=got)
                return
        # the other way of asking: test_all is "every item satisfies it"
        res.count("transitions")
        try:
            ta = c.test_all(fresh(doc))
        except BaseException as e:
            res.violation("test_all:%s:%s" % (way, type(e).__name__), "%s.test_all(%r) raised %r" % (T.show(t), doc, e), case,
                          observed=repr(e))
            return
        if ta is not all(got):
            res.violation("test_all:%s" % way, "%s.test_all(%r) is %r although the per-item results are %r" % (T.show(t), doc, ta, got),
                          case, observed=ta, expected=all(got))
            return
        res.count("validated")
        res.outcome(tuple(got))
    if nontrivial and way == "operator" and not check_operands_intact(res, t, docs, case):
        return
    if nontrivial:
        res.count("nontrivial")


def check_operands_intact(res, t, docs, case):
    """Build the two operands as objects of their own (with argument lists the caller still holds), combine them, and
    look at them again: same snapshot, same argument objects, same filter results, and still combinable."""
    from mc.snapshot import snap
    try:
        a, b = T.build_cond(t[1]), T.build_cond(t[2])
    except BaseException:
        return True
    # (what an operand *is* is judged through its public face: equality with a copy built afresh, its repr, its
    # serialised form -- not through private attributes, which an implementation may use for lazy caches)
    def face(x, t_):
        try:
            f = T.build_cond(t_)
            return (x == f, f == x, repr(x) == repr(f), vsnap(x.to_json_like()) == vsnap(f.to_json_like()))
        except BaseException as e:
            return ("raises", type(e).__name__)
    before = (face(a, t[1]), face(b, t[2]))
    obs = [[_res(x, d) for d in docs] for x in (a, b)]
    res.count("transitions", 2)
    try:
        c = OPS[t[0]](a, b)
        c2 = OPS[t[0]](a, b)        # the same operands combined a second time
        rc = [_res(c, d) for d in docs]
        rc2 = [_res(c2, d) for d in docs]
    except BaseException as e:
        res.violation("operands:combine-raises:%s" % type(e).__name__, "combining the operands of %s (twice) raised %r" % (T.show(t), e),
                      case, observed=repr(e))
        return False
    if (face(a, t[1]), face(b, t[2])) != before:
        res.violation("operands:changed", "building %s changed one of its operands: %r / %r" % (T.show(t), a, b), case,
                      observed=(repr(a), repr(b)), expected=(T.show(t[1]), T.show(t[2])))
        return False
    if [[_res(x, d) for d in docs] for x in (a, b)] != obs:
        res.violation("operands:behaviour", "after building %s an operand filters differently" % T.show(t), case)
        return False
    # ... and through the augmented operators (`acc = a; acc &= b`) and as the `condition=` of a path part
    res.count("transitions", 2)
    try:
        acc = a
        acc = IOPS[t[0]](acc, b)
        rc3 = [_res(acc, d) for d in docs]
        if T.cond_kinds(t[1]) <= {"value"}:
            from valida.datapath import MapValue, ListValue
            MapValue(key="b", condition=a)
            ListValue(index=0, condition=a)
            MapValue(key="b", value=a)
    except BaseException as e:
        res.violation("operands:augmented-raises:%s" % type(e).__name__, "`acc = a; acc %s= b` / a part built on an operand of %s raised %r"
                      % ({"and": "&", "or": "|", "xor": "^"}[t[0]], T.show(t), e), case, observed=repr(e))
        return False
    if (face(a, t[1]), face(b, t[2])) != before or [[_res(x, d) for d in docs] for x in (a, b)] != obs:
        res.violation("operands:changed-by-augmented-op", "an augmented operator or a path part built on an operand of %s changed "
                      "that operand: %r / %r" % (T.show(t), a, b), case, observed=(repr(a), repr(b)), expected=(T.show(t[1]), T.show(t[2])))
        return False
    if rc3 != rc:
        res.violation("operands:augmented-differs", "`acc = a; acc op= b` filters differently from `a op b`: %s" % T.show(t), case,
                      observed=rc3, expected=rc)
        return False
    if rc != rc2:
        res.violation("operands:second-combination", "combining the same two operands a second time gives a condition that filters "
                      "differently: %s" % T.show(t), case, observed=rc2, expected=rc)
        return False
    return True


def _res(c, doc):
    try:
        return tuple(c.filter(fresh(doc)).result)
    except BaseException as e:
        return "raises " + type(e).__name__


def check_nary(res, op, names):
    """Spec lists {'op': [s1..sn]} with n = 0..3 are a left fold."""
    res.count("evaluations")
    res.state("N", op, names)
    case = {"kind": "N", "op": op, "operands": list(names)}
    spec = {op: [spec_of(LEAVES[n]) for n in names]}
    res.count("transitions")
    try:
        c = C.ConditionLike.from_spec(spec)
    except BaseException as e:
        res.violation("nary:%s" % type(e).__name__, "from_spec(%r) raised %r" % (spec, e), case, observed=repr(e))
        return
    for doc in MAP_DOCS:
        vecs = [impl_leaf_result(LEAVES[n], doc) for n in names]
        want = [True] * len(doc)
        started = False
        for v in vecs:
            want = [OPS[op](x, y) for x, y in zip(want, v)] if started else list(v)
            started = True
        # null operands are the identity: drop them from the fold
        nn = [impl_leaf_result(LEAVES[n], doc) for n in names if n != "null"]
        want = None
        for v in nn:
            want = list(v) if want is None else [OPS[op](x, y) for x, y in zip(want, v)]
        if want is None:
            want = [True] * len(doc)
        res.count("transitions")
        try:
            got = c.filter(fresh(doc)).result
        except BaseException as e:
            res.violation("nary-filter:%s" % type(e).__name__, "%r raised %r" % (spec, e), case, observed=repr(e))
            return
        if got != want:
            res.violation("nary-fold", "%r on %r is not the fold of its operands" % (spec, doc), case, observed=got,
                          expected=want)
            return
        res.count("validated")
    if len(names) >= 2:
        res.count("nontrivial")


# ------------------------------------------------------------------------------------ H part
H_DOCS = [LIST_DOCS[0], MAP_DOCS[0]]


def h_initial_terms():
    L = LEAVES
    return [L["null"], L["v1"], L["v2"], L["v3"], L["k1"], L["i1"], L["vn"],
            ("and", L["v1"], L["v2"]), ("or", L["v1"], L["v2"])]


def h_menu(n):
    return [(op, way, i, j) for op in OPS for way in ("operator", "constructor")
            for i in range(n) for j in range(n)]


def _results(c, term):
    out = []
    kinds = T.cond_kinds(term)
    for d in H_DOCS:
        if isinstance(d, list) and "key" in kinds or isinstance(d, dict) and "index" in kinds:
            out.append(None)
            continue
        try:
            out.append(tuple(c.filter(fresh(d)).result))
        except BaseException as e:
            out.append("raises " + type(e).__name__)
    return out


class World:
    def __init__(self):
        self.terms = h_initial_terms()
        self.objs = [T.build_cond(t) for t in self.terms]
        self.snaps = [snap(o) for o in self.objs]
        self.results = [_results(o, t) for o, t in zip(self.objs, self.terms)]

    def canon(self):
        # identity-aware snapshot of the whole pool: merging is sound because the future of a
        # pool depends only on its members' contents and sharing, which the snapshot captures
        return hash(snap(self.objs))


def h_step(res, w, tr, history):
    """Apply one transition to the world; check all invariants.  -> False on violation."""
    op, way, i, j = tr
    a, b = w.objs[i], w.objs[j]
    ta, tb = w.terms[i], w.terms[j]
    case = {"kind": "H", "history": [list(h) for h in history]}
    res.count("transitions")
    kinds = T.cond_kinds(ta) | T.cond_kinds(tb)
    mixed = "key" in kinds and "index" in kinds
    try:
        new = OPS[op](a, b) if way == "operator" else CLS[op](a, b)
    except TypeError as e:
        if mixed:
            new = None
        else:
            res.violation("H:combine:TypeError", "combining pool members raised %r" % (e,), case, observed=repr(e))
            return False
    except BaseException as e:
        res.violation("H:combine:%s" % type(e).__name__, "combining pool members raised %r" % (e,), case,
                      observed=repr(e))
        return False
    if mixed and new is not None:
        res.violation("H:mixed-accepted", "a Key/Index mixture was accepted", case)
        return False
    # every pool member unaltered (snapshot) -- operands in particular
    for k, o in enumerate(w.objs):
        if snap(o) != w.snaps[k]:
            res.violation("H:operand-altered:%s" % ("operand" if k in (i, j) else "bystander"),
                          "after %s(%s, %s) [%s] pool member %d = %s no longer has its original state"
                          % (op, T.show(ta), T.show(tb), way, k, T.show(w.terms[k])), case,
                          observed=repr(snap(o))[:300], expected=repr(w.snaps[k])[:300])
            return False
    # operands still filter as before
    for k in {i, j}:
        r = _results(w.objs[k], w.terms[k])
        res.count("transitions", 2)
        if r != w.results[k]:
            res.violation("H:operand-behaviour", "operand %s filters differently after being combined" %
                          T.show(w.terms[k]), case, observed=r, expected=w.results[k])
            return False
    if new is None:
        return True
    # the new member obeys the relational oracle (on the members' recorded results)
    if ta[0] == "null":
        nt = tb
    elif tb[0] == "null":
        nt = ta
    else:
        nt = (op, ta, tb)
    want = []
    for di, d in enumerate(H_DOCS):
        ra, rb = w.results[i][di], w.results[j][di]
        if ta[0] == "null":
            want.append(rb)
        elif tb[0] == "null":
            want.append(ra)
        elif ra is None or rb is None:
            want.append(None)
        else:
            want.append(tuple(OPS[op](x, y) for x, y in zip(ra, rb)))
    got = _results(new, nt)
    res.count("transitions", 2)
    if got != want:
        res.violation("H:pointwise", "%s(%s, %s) built from reused operands is not their pointwise combination"
                      % (op, T.show(ta), T.show(tb)), case, observed=got, expected=want)
        return False
    res.count("validated")
    w.terms.append(nt)
    w.objs.append(new)
    w.snaps.append(snap(new))
    w.results.append(got)
    return True


def h_build(res, history):
    w = World()
    for n, tr in enumerate(history):
        if not h_step(res, w, tuple(tr), history[: n + 1]):
            return None
    return w


def h_explore(res, depth, first):
    """BFS over combine-histories whose first transition is menu0[first].  Interior levels
    rebuild the world from scratch for every history (live objects are never copied); at the
    last level the transitions are applied to the parent's world one after another, the new
    member being dropped again -- sound because every transition re-verifies the snapshot of
    every pool member, and any violation is re-confirmed by a from-scratch replay."""
    n0 = len(h_initial_terms())
    first_tr = h_menu(n0)[first]
    seen = set()
    frontier = [[first_tr]]
    while frontier:
        nxt = []
        for hist in frontier:
            res.count("evaluations")
            w = h_build(res, hist)
            if w is None:
                continue
            res.count("nontrivial")
            k = w.canon()
            res.states.add(k)
            if k in seen:
                res.count("merged")
                continue
            seen.add(k)
            if len(hist) >= depth:
                continue
            n = len(w.objs)
            ways = ("operator",) if len(hist) >= 1 and depth > 2 else ("operator", "constructor")
            menu = [tr for tr in h_menu(n) if tr[1] in ways]
            if len(hist) + 1 < depth:
                nxt.extend(hist + [tr] for tr in menu)
                continue
            # last level, on the parent's world
            for tr in menu:
                if tr[2] < n0 and tr[3] < n0:
                    continue  # untouched initial members: covered at level 1 (see META)
                res.count("evaluations")
                ok = h_step(res, w, tr, hist + [tr])
                if not ok:
                    w = h_build(Result(), hist)  # world may be corrupted: rebuild
                    if w is None:
                        break
                    continue
                if len(w.objs) > n:
                    res.states.add(w.canon())
                    res.count("nontrivial")
                    del w.terms[n:], w.objs[n:], w.snaps[n:], w.results[n:]
        frontier = nxt
    res.sample({"kind": "H", "history": [list(first_tr)]})


def h_replay(res, history):
    h_build(res, [tuple(h) for h in history])
