"""C13 -- rules and schemas survive the JSON round trip, casts included.

T-space: schemas of 1-3 rules (conditions from the C11 fragment, paths from the alphabet C12
serialises, casts in {none, str->bool, str->int}); serialised, pushed through real JSON text,
rebuilt; compared for equality and on every probe document (verdicts, failures, cast data).
H flavour: round trip twice; the original still validates as before afterwards.
"""
import itertools
import json

from mc import terms as T, gen
from mc.enc import fresh
from mc.run import Result
from mc.snapshot import vsnap
from mc.props.c03 import shape
from mc.props.c05 import cshape

from valida.rules import Rule
from valida.schema import Schema

META = {
    "rule": "every single rule (28 paths x 19 conditions x 4 casts incl. the declared-but-empty one), every ordered pair over a 14-rule pool (incl. cast-only rules), 113 schemas composed with add_schema (4 roots) and "
            "every ordered triple over a 6-rule pool; a case is one schema, its rules individually and as a whole "
            "serialised -> json text -> rebuilt, compared on every probe document; non-trivial = rebuilt and "
            "compared on all documents with at least one rule tested on some document",
    "assumptions": ["rule paths carry no datum/multiplicity modifier (a rule with such a path cannot be tested at all); "
                    "Rule equality ignores the doc block (C14 is about path, condition, cast)"],
    "bounds": {"quick": {"schemas": "1-rule all, 2-rule pairs over 12 rules"},
               "thorough": {"schemas": "quick + 3-rule triples over 6 rules"}},
}

L = T.leaf
P = T.path
M, Ls, MOL = gen.BARE
PATHS = [(), (("prim", "a"),), (("prim", "a"), ("prim", "b")), (("prim", 0),), (("prim", 1.5),), (("prim", True),),
         (M,), (Ls,), (MOL,), (("prim", "a"), Ls), (M, M), (gen.MAPS[0],), (gen.MAPS[2],), (gen.MAPS[5],),
         (gen.MAPS[7],), (gen.MAPS[8],), (gen.LISTS[0],), (gen.LISTS[4],), (gen.LISTS[6],), (gen.MOLS[6],),
         (gen.MOLS[2], ("prim", "a")), (("map", ("lit", "a"), None, "L"),), (("prim", "m"), ("prim", "x")),
         (("prim", "lst"), gen.LISTS[2]),
         # all-string concrete paths whose keys look like numbers, contain the usual delimiters or are empty
         (("prim", "a"), ("prim", "0")), (("prim", "2024"),), (("prim", "a/b"), ("prim", "1.5")), (("prim", ""), ("prim", "b"))]
PA = ("$path", P((("prim", "b"),)))
CONDS = [
    L("ValueDataType", "equal_to", int), L("ValueDataType", "in_", [bool, str]), L("Value", "equal_to", 3),
    L("Value", "truthy"), L("Value", "in_range", 0, 5), L("Value", "factor_of", 6), L("ValueLength", "less_than", 3),
    L("Value", "keys_contain_N_of", 1, ["a", "b"]), L("Value", "items_contain", b=1), L("Value", "equal_to", PA),
    L("Value", "in_", [PA, 5, {"path": ["x"]}]), ("and", L("Value", "greater_than", 0), L("ValueDataType", "equal_to", int)),
    ("or", ("xor", L("Value", "truthy"), L("Value", "equal_to", "true")), L("Value", "is_instance", dict, list)),
    T.NULL,
    # the root path (no parts: an object of length 0) as an item of a list / keyword argument
    L("Value", "in_", [("$path", P((), "length")), 0]), L("ValueLength", "in_range", lower=0, upper=("$path", P((), "length"))),
    # right-nested and balanced same-operator combinations
    ("and", L("Value", "greater_than", 0), ("and", L("ValueDataType", "equal_to", int), L("Value", "less_than", 9))),
    ("xor", L("Value", "truthy"), ("xor", L("Value", "equal_to", 3), L("ValueDataType", "equal_to", str))),
    ("or", ("or", L("Value", "equal_to", 1), L("Value", "equal_to", 2)), ("or", L("Value", "equal_to", 3), L("Value", "equal_to", "3"))),
]
CASTS = [(), (("str", "bool"),), (("str", "int"),), "empty"]
DOCS = [
    {"a": "3", "b": 3, "m": {"x": "true"}, "lst": [1, "1", 1]}, {"a": {"b": "3"}, "b": [1, 2]}, {"a": ["3", "x", 3], 0: "FALSE"},
    ["3", "true", 3, {"a": "1"}], [["3"], {"b": 1}], {1.5: "3", True: "true", "a": 1, "b": 1}, {"a": 1, "b": 1},
    {"a": None}, {"m": {"x": "abc", "y": 5}, "b": {"a": 1}}, {"a": {"a": 1, "b": 1}, "b": 5},
]


def rule_terms():
    out = []
    for p in PATHS:
        for c in CONDS:
            for cast in CASTS:
                out.append(T.rule(P(p), c, cast))
    return out


POOL12 = [T.rule(P(PATHS[i]), CONDS[j], CASTS[k]) for i, j, k in
          [(0, 6, 0), (1, 0, 2), (1, 9, 0), (2, 2, 2), (3, 1, 1), (6, 0, 2), (7, 11, 2), (9, 2, 2), (10, 3, 0),
           (13, 7, 0), (22, 1, 1), (23, 10, 0)]]


POOL12 += [T.rule(P(PATHS[1]), T.NULL, CASTS[2]), T.rule(P(PATHS[22]), T.NULL, CASTS[1])]   # cast-only rules

# schemas composed with add_schema: ("composed", target rules, source rules, root parts)
ROOTS = [(), (("prim", "a"),), (("prim", "m"),), (gen.BARE[0],)]


def composed():
    out = []
    for a in POOL12[1:14:2]:
        for b in POOL12[::2]:
            for root in ROOTS:
                out.append(("composed", (a,), (b,), root))
    out.append(("composed", (POOL12[1], POOL12[3]), (POOL12[12], POOL12[2]), ROOTS[1]))
    return out


DOC_SHAPES = ["a plain string doc\n", ["two", " lines "], {"description": "text"}, {"description": ["d"], "examples": [" e "]},
              {"examples": ["only"]}]


def schemas(tier):
    out = [("schema", (r,)) for r in rule_terms()]
    # rules carrying a doc block (the constructor stores it as given): equality after the round trip must not depend on it
    for di, doc in enumerate(DOC_SHAPES):
        for r in POOL12[di::5]:
            out.append(("schema", (T.rule(r[1], r[2], r[3], doc),)))
        out.append(("schema", (T.rule(POOL12[1][1], POOL12[1][2], POOL12[1][3], doc), POOL12[4])))
    out += composed()
    out += [("schema", pair) for pair in itertools.product(POOL12, repeat=2)]
    # three rules of equal depth, two of them on one path with a rule on another path in between (a, b, a)
    ra = [r for r in rule_terms() if r[1][1] == (("prim", "a"),)][:6:2]
    rb = [r for r in rule_terms() if r[1][1] == (("prim", 0),)][:2]
    out += [("schema", (x, y, z)) for x in ra for y in rb for z in ra if x != z]
    if tier == "thorough":
        out += [("schema", tri) for tri in itertools.product(POOL12[:6], repeat=3)]
    return out


_c = {}


def _schemas(tier):
    if tier not in _c:
        _c[tier] = schemas(tier)
    return _c[tier]


def prepare(tier):
    _schemas(tier)


# rules that differ only in the type of an equal-valued path part or argument (1 / 1.0 / True, 0 / 0.0 / False): an
# int or bool part addresses a list index or a mapping key, a float part a mapping key only; range(0.0, 5) is
# undefined where range(0, 5) is not.  All of them are round-tripped in ONE process, in both orders, alone and in pairs
CONF_RULES = [T.rule(P((("prim", "a"), ("prim", x))), c) for x in (1, 1.0, True, 0, 0.0, False)
              for c in (L("Value", "equal_to", 3), L("ValueDataType", "equal_to", str))] + \
             [T.rule(P((("prim", "b"),)), L("Value", "in_range", lo, 5)) for lo in (0, 0.0, False)] + \
             [T.rule(P((("prim", 1),)), L("Value", "truthy")), T.rule(P((("prim", 1.0),)), L("Value", "truthy"))]
CONF_DOCS = [{"a": ["3", 3, "x"], "b": 3}, {"a": {1: 3, 0: "3"}, "b": 7}, {"a": {1.0: "q", False: 3}, "b": 3.0},
             ["x", 0, 5], {1: 0, "b": "3"}, {"a": [3]}]


def units(tier):
    return gen.chunks(len(_schemas(tier)), 24) + [["CONF", 0], ["CONF", 1]]


def run_unit(unit, tier):
    res = Result()
    if unit[0] == "CONF":
        pool = CONF_RULES if unit[1] == 0 else CONF_RULES[::-1]
        for i, r in enumerate(pool):
            check_case(res, ("schema", (r,)), key=("CONF", unit[1], i), DOCS=CONF_DOCS)
        for i, (a, b) in enumerate(itertools.permutations(pool, 2)):
            if a[1] == b[1] or a[1][1][:1] == b[1][1][:1]:      # pairs on the same or sibling paths
                check_case(res, ("schema", (a, b)), key=("CONF", unit[1], "pair", i), DOCS=CONF_DOCS)
        return res
    ss = _schemas(tier)
    for i in range(unit[0], unit[1]):
        check_case(res, ss[i], key=(i,))
    res.sample({"schema": ss[unit[0]]})
    return res


def replay(case):
    res = Result()
    check_case(res, case["schema"], key=("replay",), DOCS=CONF_DOCS if case.get("conf") else None)
    return list(res.violations.values())


def observe(schema, doc):
    try:
        vd = schema.validate(fresh(doc))
        return ("ok", vd.is_valid, vd.num_failures, vd.num_rules_tested, vsnap(vd.cast_data),
                tuple((rt.is_valid, rt.tested, tuple((tuple(f.path), vsnap(f.value)) for f in rt.failures))
                      for rt in vd.rule_tests))
    except BaseException as e:
        return ("raises", type(e).__name__)


def sig_of(st):
    if st[0] == "composed":
        return "composed|" + ("+".join(b for r in (st[1][0], st[2][0]) if r[3] != "empty" for _, b in r[3]) or "nocast")
    r = st[1][0]
    return "%s|%s|%s" % (shape(r[1]), cshape(r[2]), r[3] if r[3] == "empty" else ("+".join(b for _, b in r[3]) or "nocast"))


def check_case(res, st, key, DOCS=None):
    DOCS = globals()["DOCS"] if DOCS is None else DOCS
    res.count("evaluations")
    res.state(*key)
    case = {"schema": st}
    if DOCS is CONF_DOCS:
        case["conf"] = True
    try:
        if st[0] == "composed":
            from valida.datapath import DataPath
            x = T.build_schema(("schema", st[1]))
            x.to_json_like()   # (a serialisation *before* the composition must not be remembered)
            x.add_schema(T.build_schema(("schema", st[2])), DataPath(*[T.build_part(p) for p in st[3]]))
        else:
            x = T.build_schema(st)
    except BaseException as e:
        res.violation("build:%s" % type(e).__name__, "building %s raised %r" % (T.show(st), e), case, observed=repr(e))
        return
    before = [observe(x, d) for d in DOCS]
    res.count("transitions", len(DOCS))
    # ---- each rule on its own
    for r in x.rules:
        res.count("transitions", 2)
        try:
            js = r.to_json_like()
            text = json.dumps(js)
        except BaseException as e:
            res.violation("rule-serialise:%s:%s" % (type(e).__name__, sig_of(st)), "Rule.to_json_like / json.dumps raised %r for %r"
                          % (e, r), case, observed=repr(e))
            return
        try:
            r2 = Rule.from_json_like(json.loads(text))
        except BaseException as e:
            res.violation("rule-rebuild:%s:%s" % (type(e).__name__, sig_of(st)), "Rule.from_json_like(%s) raised %r" % (text, e),
                          case, observed=repr(e))
            return
        if not (r2 == r and r == r2):
            res.violation("rule-unequal:%s" % sig_of(st), "rule %r round-trips through %s to the unequal %r" % (r, text, r2),
                          case, observed=repr(r2), expected=repr(r))
            return
    # ---- the schema, twice (H flavour)
    y = x
    for n in (1, 2):
        res.count("transitions", 2)
        try:
            js = y.to_json_like()
            text = json.dumps(js)
            y = Schema.from_json_like(json.loads(text))
        except BaseException as e:
            res.violation("schema-roundtrip:%s:%s" % (type(e).__name__, sig_of(st)), "round trip %d of %s raised %r"
                          % (n, T.show(st), e), case, observed=repr(e))
            return
        if not (y == x and x == y):
            res.violation("schema-unequal:%s" % sig_of(st), "schema round-trips (x%d) to an unequal schema" % n, case,
                          observed=repr(y.rules), expected=repr(x.rules))
            return
        res.count("transitions", len(DOCS))
        after = [observe(y, d) for d in DOCS]
        if after != before:
            i = next(i for i in range(len(DOCS)) if after[i] != before[i])
            res.violation("behaviour:%s" % sig_of(st), "round-tripped schema (x%d) validates %r differently" % (n, DOCS[i]),
                          case, observed=after[i], expected=before[i])
            return
    # the original still behaves as before (no mutable state shared with the copies)
    res.count("transitions", len(DOCS))
    if [observe(x, d) for d in DOCS] != before:
        res.violation("original-changed:%s" % sig_of(st), "the original schema validates differently after being round-tripped",
                      case)
        return
    res.count("validated")
    if any(b[0] == "ok" and b[3] > 0 for b in before):
        res.count("nontrivial")
    res.outcome(tuple(b[:2] for b in before[:3]))
