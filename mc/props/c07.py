"""C07 -- validation never raises because of what the document contains.

T-space: schemas of value-kind rules over the full callable set with well-typed,
non-degenerate arguments x casts x 17 path shapes x documents carrying every value of V under
every key type of K.  Oracle: no exception escapes validate / Rule.test or the result accessors.
"""
import itertools

from mc import terms as T, gen
from mc.enc import fresh
from mc.run import Result
from mc.props.c05 import LEAVES as C5_LEAVES, cshape
from mc.props.c03 import shape

from valida.schema import Schema

META = {
    "rule": "(the 5 longest path shapes are combined with a 12-leaf sub-pool only) schemas of 1-2 value-kind rules: every Value / Value.length / Value.dtype callable with well-typed "
            "non-degenerate arguments x casts {none, str->bool, str->int, both in different rules} x 17 path "
            "shapes x every document of the family; plus 9 data-path arguments with datum / multiplicity modifiers (whose own resolution is undefined on unexpected documents) in 9 argument positions x 3 rule paths x {no cast, str->int}; a case is one (schema, document) pair; non-trivial = at "
            "least one rule was tested (its path exists in the document)",
    "assumptions": ["arguments are of the kinds the conditions expect (the statement's premise); ill-typed "
                    "arguments are C01's totality oracle"],
    "bounds": {"quick": {"documents": "F-type flat + two-level (all of V under all of K) + F-deep", "argument tuples per callable": "1-2"},
               "thorough": {"documents": "F-type + F-deep + F-struct(4)", "argument tuples per callable": "1-2, plus pairwise and/or/xor on a 6-leaf sub-pool"}},
}

L = T.leaf
EXTRA = [
    L("Value", "factor_of", 1.5), L("Value", "has_factor", -1), L("Value", "equal_to_approx", 0.5),
    L("Value", "in_", "abc"), L("Value", "in_", {"a": 1}), L("Value", "not_in", [1, [1]]),
    L("Value", "less_than", [1]), L("Value", "greater_than", "1"), L("Value", "equal_to", None),
    L("Value", "items_contain", a=[1], b=None), L("Value", "keys_is_instance", int, float),
    L("Value", "is_instance", dict), L("Value", "keys_equal_to"), L("Value", "allowed_keys"),
    L("ValueLength", "greater_than", 0), L("ValueLength", "has_factor", 2), L("ValueLength", "factor_of", 4),
    L("ValueLength", "not_in_range", 0, 1), L("ValueLength", "equal_to_approx", 1, 1),
    L("ValueLength", "is_instance", int), L("ValueLength", "falsy"), L("ValueLength", "not_in", [0]),
    L("ValueDataType", "is_instance", type), L("ValueDataType", "truthy"), L("ValueDataType", "less_than", int),
]
LEAVES = C5_LEAVES + EXTRA
SUB6 = [C5_LEAVES[11], C5_LEAVES[12], C5_LEAVES[2], C5_LEAVES[32], C5_LEAVES[17], C5_LEAVES[10]]

M, Ls, MOL = gen.BARE
PATHS = [
    (), (("prim", "a"),), (("prim", "a"), ("prim", 0)), (("prim", 0),), (("prim", 1.5),), (("prim", True),),
    (M,), (Ls,), (MOL,), (("prim", "a"), Ls), (M, M), (("prim", "a"), gen.MAPS[4]),
    (MOL, MOL), (Ls, ("prim", "a")), (M, Ls, ("prim", "a")), (("prim", "servers"), Ls, ("prim", "port")), (MOL, MOL, MOL),
]
CASTS = [(), (("str", "bool"),), (("str", "int"),), "both"]


def schemas(tier):
    conds = list(LEAVES)
    conds += [("or", C5_LEAVES[32], C5_LEAVES[0]), ("and", C5_LEAVES[33], C5_LEAVES[13]), ("xor", C5_LEAVES[34], C5_LEAVES[2]),
              ("or", ("and", C5_LEAVES[11], C5_LEAVES[32]), C5_LEAVES[10])]
    if tier == "thorough":
        for op in ("and", "or", "xor"):
            for a, b in itertools.combinations(SUB6, 2):
                conds.append((op, a, b))
    out = []
    # data-path arguments (an argument kind every comparison accepts) whose own resolution can go wrong on an
    # unexpected document: length of an unsized node, keys of a non-mapping, `single` with several matches
    P = T.path
    pargs = [P((("prim", "a"),), "length"), P((("prim", "a"),), "map_keys"), P((("prim", "a"),), "map_values"),
             P((("prim", "a"), Ls), None, "single"), P((("prim", "a"),), "dtype"), P((("prim", "a"), MOL), "length", "all"),
             P((("prim", "a"), ("prim", "b"))), P((M,), "length", "first"), P((("prim", "a"), Ls), "map_keys", "last", "md")]
    for pa in pargs:
        a = ("$path", pa)
        for c in (L("Value", "equal_to", a), L("Value", "in_", a), L("Value", "less_than", a), L("Value", "not_equal_to", a),
                  # (no in_range position here: `1.5 in range(0, 2**62)` is a linear search in CPython -- with a bound taken
                  # from these documents the comparison would not come back; C17 has in_range with path arguments)
                  L("Value", "keys_contain_any_of", a, "z"), L("Value", "items_contain", q=a), L("Value", "in_", [a, 5]),
                  L("ValueLength", "equal_to", a), ("or", L("Value", "equal_to", a), L("Value", "truthy"))):
            for p in ((), (M,), (("prim", "a"),)):
                for cast in ((), (("str", "int"),)):
                    out.append(("schema", (T.rule(T.path(p), c, cast),)))
    for c in conds:
        for p in (PATHS if c in SUB6 or c in EXTRA[:6] else PATHS[:12]):
            for cast in CASTS:
                pt = T.path(p)
                if cast == "both":
                    out.append(("schema", (T.rule(pt, c, (("str", "bool"),)), T.rule(pt, c, (("str", "int"),)))))
                else:
                    out.append(("schema", (T.rule(pt, c, cast),)))
    return out


def family(tier):
    d = gen.docs_type2() + gen.docs_deep()
    if tier == "thorough":
        d = d + gen.docs_struct(4)
    return d


_sc = {}


def _schemas(tier):
    if tier not in _sc:
        _sc[tier] = schemas(tier)
    return _sc[tier]


def prepare(tier):
    _schemas(tier)
    family(tier)


def units(tier):
    return gen.chunks(len(_schemas(tier)), 16)


def run_unit(unit, tier):
    res = Result()
    ss = _schemas(tier)
    docs = family(tier)
    for si in range(unit[0], unit[1]):
        st = ss[si]
        schema = build(res, st, docs[0])
        if schema is None:
            continue
        for di, doc in enumerate(docs):
            check_case(res, st, schema, doc, key=(si, di))
    res.sample({"schema": ss[unit[0]], "doc": docs[0]})
    return res


def build(res, st, doc):
    # schemas that declare a str->int cast alone are loaded from their spec (so that the library's own cast helper from
    # the cast table is used); all others, incl. the bool+int ones, are built through the API (builtin `int`)
    if len(st[1]) == 1 and st[1][0][3] == (("str", "int"),):
        try:
            from mc import specs as S
            return Schema.from_json_like([S.rule_spec(r) for r in st[1]])
        except BaseException:
            pass        # (not spellable / rejected: C09, C10 and C19 judge that)
    try:
        return T.build_schema(st)
    except BaseException as e:
        res.violation("build:%s:%s" % (type(e).__name__, cshape(st[1][0][2])), "building %s raised %r" % (T.show(st), e),
                      {"schema": st, "doc": doc}, observed=repr(e))
        return None


def replay(case):
    res = Result()
    schema = build(res, case["schema"], case["doc"])
    if schema is not None:
        check_case(res, case["schema"], schema, case["doc"], key=("replay",))
    return list(res.violations.values())


def where(e):
    tb = e.__traceback__
    last = None
    while tb is not None:
        if "/valida/" in tb.tb_frame.f_code.co_filename:
            last = tb.tb_frame.f_code.co_name
        tb = tb.tb_next
    return last or "?"


def check_case(res, st, schema, doc, key):
    res.count("evaluations")
    res.state(*key)
    case = {"schema": st, "doc": doc}
    r0 = st[1][0]
    d = fresh(doc)
    res.count("transitions", 2)
    try:
        vd = schema.validate(d)
        _ = (vd.is_valid, vd.num_failures, vd.num_rules_tested, vd.cast_data, vd.get_failures_string())
        tested = False
        for rt in vd.rule_tests:
            tested = tested or rt.tested
            for f in rt.failures:
                _ = (f.path, f.value, f.reasons, f.index)
        for r in schema.rules:
            rt = r.test(fresh(doc))
            _ = (rt.is_valid, rt.tested, rt.num_failures, rt.get_failures_string())
    except BaseException as e:
        res.violation("raises:%s:%s:cast=%s" % (type(e).__name__, where(e), "+".join(b for _, b in r0[3]) or "none"),
                      "validating %r against %s raised %r" % (doc, T.show(st), e), case, observed=repr(e),
                      expected="a result object")
        return
    res.count("validated")
    if tested:
        res.count("nontrivial")
    res.outcome((vd.is_valid, tested))
