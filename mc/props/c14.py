"""C14 -- equality is an equivalence relation that implies identical behaviour.

T-space: for every term x of the condition / part / path / rule / schema pools and every y in
{x rebuilt, x with operands commuted, x with one atom changed}: reflexivity, symmetry, != as
negation, rebuilt/commuted copies equal, and `x == y` => identical behaviour on every probe
document.  Transitivity over all triples of pools of <= 60 objects per kind.
"""
import itertools

from mc import terms as T, gen
from mc.enc import fresh
from mc.run import Result
from mc.snapshot import vsnap

META = {
    "rule": "pools: ~90 condition leaves + 150 trees, 48 parts, ~170 paths, ~120 rules, ~60 schemas; for each term x "
            "all y = rebuild(x), commute(x), one-atom mutants of x (argument -> other value / equal value of another "
            "numeric type / list<->tuple; callable; pre-processor; datum kind; operator; operand; part kind; key / index / "
            "value condition; label; datum / multiplicity modifier; part added / dropped; cast; rule added / dropped / "
            "reordered); for both members of every pair also the same definition written as a spec and loaded through the spec parser (a separately built copy: must be equal, both loaded in the one process of the unit); a case is one ordered pair (x, y); non-trivial = x == y held and behaviour was compared on all "
            "probe documents; plus all triples of each 60-object pool for transitivity; plus, for every modifier-free path, every modifier variant derived from an already-compared live object",
    "assumptions": ["one-atom mutants are NOT required to be unequal; only an equal pair that behaves differently is a violation",
                    "comparisons with foreign objects (5, None, another valida kind) are executed but only required not to "
                    "claim equality with a non-valida object and not to raise"],
    "bounds": {"quick": {"pools": "as above"}, "thorough": {"pools": "as above + depth-3 trees in the condition pool"}},
}

L = T.leaf
P = T.path
PA = ("$path", P((("prim", "b"),)))
PB = ("$path", P((("prim", "b"),), "length"))

LEAVES = [
    L("Value", "equal_to", 1), L("Value", "equal_to", "a"), L("Value", "equal_to", [1, 2]), L("Value", "equal_to", {"a": 1}),
    L("Value", "equal_to", None), L("Value", "not_equal_to", 1), L("Value", "less_than", 2), L("Value", "greater_than", 0),
    L("Value", "less_than_or_equal_to", 2), L("Value", "greater_than_or_equal_to", 1.5), L("Value", "in_", [1, "a"]),
    L("Value", "in_", "abc"), L("Value", "not_in", [1, 2]), L("Value", "in_range", 1, 3), L("Value", "not_in_range", 1, 3),
    L("Value", "equal_to_approx", 1), L("Value", "equal_to_approx", 1, 0.5), L("Value", "factor_of", 6),
    L("Value", "has_factor", 2), L("Value", "truthy"), L("Value", "falsy"), L("Value", "null"),
    L("Value", "is_instance", int), L("Value", "is_instance", int, str), L("Value", "keys_contain", "a"),
    L("Value", "keys_contain", 1), L("Value", "keys_contain_any_of", "a", "b"), L("Value", "keys_contain_all_of", "a", "b"),
    L("Value", "keys_contain_N_of", 1, ["a", "b"]), L("Value", "keys_contain_at_least_N_of", 1, ["a", 1]),
    L("Value", "keys_contain_at_most_N_of", 1, ["a"]), L("Value", "keys_contain_one_of", "a", 1),
    L("Value", "keys_contain_at_least_one_of", ["a"]), L("Value", "keys_contain_at_most_one_of", ["a", "b"]),
    L("Value", "keys_equal_to", "a", "b"), L("Value", "keys_is_instance", str), L("Value", "items_contain", a=1),
    L("Value", "items_contain", a=1, b=2), L("Value", "allowed_keys", "a", "b"), L("Value", "required_keys", "a"),
    L("Value", "forbidden_keys", "a"), L("Value", "equal_to", PA), L("Value", "in_", [PA, 1]), L("Value", "less_than", PB),
    L("ValueLength", "equal_to", 1), L("ValueLength", "less_than", 2), L("ValueLength", "in_", [0, 2]),
    L("ValueLength", "in_range", 1, 3), L("ValueDataType", "equal_to", int), L("ValueDataType", "equal_to", dict),
    L("ValueDataType", "in_", [int, str]), L("ValueDataType", "not_equal_to", str),
    L("Key", "equal_to", "a"), L("Key", "equal_to", 1), L("Key", "in_", ["a", 1]), L("Key", "less_than", "b"),
    L("Key", "in_range", 0, 2), L("KeyLength", "equal_to", 1), L("KeyDataType", "equal_to", str), L("KeyDataType", "in_", [int, str]),
    L("Index", "equal_to", 0), L("Index", "less_than", 2), L("Index", "in_", [0, 2]), L("Index", "in_range", 0, 2),
    L("Index", "has_factor", 2),
]
POOL6 = [T.NULL, LEAVES[0], LEAVES[6], LEAVES[19], LEAVES[44], LEAVES[48]]

NUM_ALT = {1: [1.0, True], 0: [0.0, False], 2: [2.0], 3: [3.0], 6: [6.0], 1.5: [], 0.5: []}


def _alt_values(a):
    """(kind of change, new value) for one argument value."""
    out = []
    if isinstance(a, bool):
        out.append(("arg-numeric-type", int(a)))
        out.append(("arg-value", not a))
    elif isinstance(a, (int, float)):
        for v in NUM_ALT.get(a, []):
            out.append(("arg-numeric-type", v))
        out.append(("arg-value", a + 1))
    elif isinstance(a, str):
        out.append(("arg-value", a + "x"))
        out.append(("arg-value", a.upper() if a.upper() != a else a.lower()))
    elif a is None:
        out.append(("arg-value", 0))
    elif isinstance(a, type):
        out.append(("arg-value", float if a is not float else int))
    elif isinstance(a, list):
        out.append(("arg-list-tuple", tuple(a)))
        out.append(("arg-value", a + [0]))
        out.append(("arg-value", list(reversed(a)) if len(a) > 1 and a[0] != a[-1] else a[:-1]))
        for i, x in enumerate(a):
            for k, v in _alt_values(x):
                out.append((k, a[:i] + [v] + a[i + 1:]))
    elif isinstance(a, dict):
        for key in a:
            for k, v in _alt_values(a[key]):
                out.append((k, {**a, key: v}))
        out.append(("arg-value", {**a, "zz": 1}))
    elif T.is_path_arg(a):
        for k, p in path_mutants(a[1])[:6]:
            out.append(("arg-path:" + k, ("$path", p)))
    return out


def cond_mutants(t):
    out = []
    if t[0] == "null":
        return [("null->leaf", LEAVES[21])]
    if t[0] == "leaf":
        _, cls, call, args, kwargs = t
        for i, a in enumerate(args):
            for k, v in _alt_values(a):
                out.append((k + ":" + call, ("leaf", cls, call, args[:i] + (v,) + args[i + 1:], kwargs)))
        for i, (kk, a) in enumerate(kwargs):
            for k, v in _alt_values(a):
                out.append((k + ":" + call, ("leaf", cls, call, args, kwargs[:i] + ((kk, v),) + kwargs[i + 1:])))
            out.append(("kwarg-name:" + call, ("leaf", cls, call, args, kwargs[:i] + ((kk + "x", a),) + kwargs[i + 1:])))
        # callable with the same signature class
        sig = T.SIG[call][0]
        for other in T.CALLABLES[cls]:
            if other != call and T.SIG[other][0] == sig and (sig != "multi" or T.SIG[other][1] == T.SIG[call][1]):
                out.append(("callable", ("leaf", cls, other, args, kwargs)))
        for a, full in T.ALIASES.items():
            if full == call:
                out.append(("alias", ("leaf", cls, a, args, kwargs)))   # same callable through its alias: must be equal
        # pre-processor / datum kind
        for other in T.CLASSES:
            if other != cls and call in T.CALLABLES[other]:
                out.append(("class", ("leaf", other, call, args, kwargs)))
        return out
    op, a, b = t
    out.append(("commute", (op, b, a)))
    for o in ("and", "or", "xor"):
        if o != op:
            out.append(("operator", (o, a, b)))
    for k, m in cond_mutants(a)[:40]:
        out.append(("left:" + k, (op, m, b)))
    for k, m in cond_mutants(b)[:40]:
        out.append(("right:" + k, (op, a, m)))
    out.append(("drop-operand", a))
    return out


def part_mutants(p):
    out = []
    tag = p[0]
    if tag == "prim":
        v = p[1]
        for k, nv in _alt_values(v):
            try:
                out.append((k, ("prim", nv)))
            except Exception:
                pass
        if isinstance(v, str):
            out.append(("prim->map", ("map", ("lit", v), None, None)))
        if isinstance(v, int) and not isinstance(v, bool):
            out.append(("prim->mol", ("mol", ("lit", v), ("lit", v), None, None)))
            out.append(("prim->list", ("list", ("lit", v), None, None)))
            out.append(("prim->mol-key-only", ("mol", ("lit", v), None, None, None)))
            out.append(("prim->mol-other-index", ("mol", ("lit", v), ("lit", v + 1), None, None)))
        return out
    n = len(p)
    for i in range(1, n - 1):
        c = p[i]
        if c is None:
            fill = {"key": ("lit", "a"), "index": ("lit", 0), "value": gen.V_DICT}
            names = {"map": ("key", "value"), "list": ("index", "value"), "mol": ("key", "index", "value")}[tag]
            out.append(("add-%s" % names[i - 1], p[:i] + (fill[names[i - 1]],) + p[i + 1:]))
        else:
            out.append(("drop-cond", p[:i] + (None,) + p[i + 1:]))
            if c[0] == "lit":
                for k, nv in _alt_values(c[1]):
                    out.append((k, p[:i] + (("lit", nv),) + p[i + 1:]))
            else:
                for k, m in cond_mutants(c)[:12]:
                    out.append(("cond:" + k, p[:i] + (m,) + p[i + 1:]))
    out.append(("label", p[:-1] + ("L2" if p[-1] != "L2" else None,)))
    if tag == "map":
        out.append(("kind", ("mol", p[1], None, p[2], p[3])))
    if tag == "list":
        out.append(("kind", ("mol", None, p[1], p[2], p[3])))
    if tag == "mol":
        out.append(("kind", ("map", p[1], p[3], p[4])))
        out.append(("kind", ("list", p[2], p[3], p[4])))
    return out


def path_mutants(pt):
    _, parts, datum, multi, order = pt
    out = []
    for i, p in enumerate(parts):
        for k, m in part_mutants(p)[:10]:
            out.append(("part%d:%s" % (i, k), P(parts[:i] + (m,) + parts[i + 1:], datum, multi, order)))
        out.append(("drop-part", P(parts[:i] + parts[i + 1:], datum, multi, order)))
    out.append(("add-part", P(parts + (("prim", "a"),), datum, multi, order)))
    out.append(("add-part", P(parts + (gen.BARE[0],), datum, multi, order)))
    conc = all(p[0] == "prim" for p in parts)
    for d in T.DATUMS:
        if d != datum:
            out.append(("datum", P(parts, d, multi, order)))
    if not conc:
        for m in T.MULTIS:
            if m != multi:
                out.append(("multi", P(parts, datum, m, order)))
    if datum and multi:
        out.append(("modifier-order", P(parts, datum, multi, "md" if order == "dm" else "dm")))
    return out


def rule_mutants(rt):
    _, p, c, cast, doc = rt
    out = []
    for k, m in path_mutants(p)[:25]:
        if m[2] is None and m[3] is None:
            out.append(("path:" + k, T.rule(m, c, cast, doc)))
    for k, m in cond_mutants(c)[:25]:
        out.append(("cond:" + k, T.rule(p, m, cast, doc)))
    for other in ((), (("str", "bool"),), (("str", "int"),)):
        if other != cast:
            out.append(("cast", T.rule(p, c, other, doc)))
    return out


def schema_mutants(st):
    rules = st[1]
    out = []
    for i, r in enumerate(rules):
        muts = rule_mutants(r)
        muts = [x for x in muts if x[0].endswith("commute")] + muts[:12]
        for k, m in muts:
            out.append(("rule%d:%s" % (i, k), ("schema", rules[:i] + (m,) + rules[i + 1:])))
        out.append(("drop-rule", ("schema", rules[:i] + rules[i + 1:])))
    out.append(("add-rule", ("schema", rules + (RULES[0],))))
    if len(rules) > 1:
        out.append(("reorder", ("schema", tuple(reversed(rules)))))
    return out


M, Ls, MOL = gen.BARE
PATHS = [P(()), P((("prim", "a"),)), P((("prim", 0),)), P((("prim", 1),)), P((("prim", True),)), P((("prim", 1.5),)),
         P((("prim", "a"), ("prim", 0))), P((("prim", "a"), ("prim", 1))), P((M,)), P((Ls,)), P((MOL,)),
         P((("map", ("lit", "a"), None, None),)), P((("mol", ("lit", 0), ("lit", 0), None, None),)),
         P((("mol", ("lit", "a"), ("lit", 0), None, None),)), P((("list", ("lit", 0), None, None),)),
         P((gen.MAPS[0],)), P((gen.MAPS[5],)), P((gen.LISTS[4],)), P((gen.MOLS[6],)), P((gen.MOLS[2], ("prim", "a"))),
         P((M,), "length"), P((M,), None, "first"), P((M,), "length", "first"), P((M,), "length", "first", "md"),
         P((("prim", "a"),), "dtype"), P((("prim", "a"), Ls), "map_keys", "all"), P((("map", ("lit", "a"), None, "L"),)),
         P((M, ("prim", "a"))), P((("prim", "a"), M)), P((Ls, Ls))]
RULES = [T.rule(PATHS[i], LEAVES[j], cast) for i, j, cast in [
    (0, 44, ()), (1, 0, ()), (1, 0, (("str", "int"),)), (1, 48, (("str", "bool"),)), (2, 0, ()), (3, 0, ()), (6, 0, ()), (7, 0, ()),
    (8, 48, ()), (9, 6, (("str", "int"),)), (10, 19, ()), (11, 0, ()), (12, 0, ()), (13, 0, ()), (15, 13, ()), (17, 6, ()),
    (19, 41, ()), (26, 0, ()), (27, 42, ()), (1, 13, ())]] + \
    [T.rule(PATHS[1], ("and", LEAVES[6], LEAVES[48])), T.rule(PATHS[1], ("or", LEAVES[0], ("xor", LEAVES[19], LEAVES[6]))),
     T.rule(PATHS[1], ("and", LEAVES[19], LEAVES[0])), T.rule(PATHS[1], ("and", LEAVES[44], LEAVES[7])),
     T.rule(PATHS[1], ("or", LEAVES[48], LEAVES[6]))]
SCHEMAS = [("schema", ())] + [("schema", (r,)) for r in RULES[:8]] + \
          [("schema", (RULES[i], RULES[j])) for i, j in [(1, 4), (4, 1), (1, 2), (6, 7), (0, 1), (8, 9), (1, 1), (12, 4), (5, 3)]] + \
          [("schema", (RULES[0], RULES[1], RULES[6])), ("schema", (RULES[6], RULES[1], RULES[0]))] + \
          [("schema", (RULES[20], RULES[1])), ("schema", (RULES[1], RULES[21])), ("schema", (RULES[20], RULES[21], RULES[19])),
           # several combination-conditioned rules on ONE path (their relative order is all that distinguishes schemas)
           ("schema", (RULES[20], RULES[22])), ("schema", (RULES[22], RULES[20], RULES[23])), ("schema", (RULES[21], RULES[24], RULES[20]))]

C_DOCS = [[0, 1, 2, 3, 1.0, True, 1.5, "a", "abc", None, [1, 2], {"a": 1}, {"a": 1, "b": 2}, "", [], {}, 6, 4],
          dict(zip(["a", "b", 1, 0, 1.5, None, "abc", "", 2, "c", "d", "e", "f", "g", "h", "i", "j", "k"],
                   [0, 1, 2, 3, 1.0, True, 1.5, "a", "abc", None, [1, 2], {"a": 1}, {"a": 1, "b": 2}, "", [], {}, 6, 4]))]
SRC = {"b": [1, 2], "a": 1}
P_DOCS = gen.docs_type2()[::3] + gen.docs_deep()[::4] + [
    {"a": [1, {"a": 1}], 0: "k0", 1: "k1", True: "kT", 1.5: "f", "b": {"a": 1, "b": [0]}}, [["x", "y"], {"a": 1, 0: 2}, 5],
    {"a": "3", "b": "true", 0: "3"}, [1, "3", "true"], {"a": {"b": 1}, "b": 1},
]


def behaviour(kind, obj):
    out = []
    if kind == "cond":
        for d in C_DOCS:
            try:
                out.append(tuple(obj.filter(fresh(d), source_data=fresh(SRC)).result))
            except BaseException as e:
                out.append("raises " + type(e).__name__)
    elif kind in ("part", "path"):
        from valida.datapath import DataPath
        p = DataPath(obj) if kind == "part" else obj
        for d in P_DOCS:
            try:
                out.append(vsnap(p.get_data(fresh(d), return_paths=True)))
            except BaseException as e:
                out.append("raises " + type(e).__name__)
    elif kind == "rule":
        for d in P_DOCS:
            try:
                rt = obj.test(fresh(d))
                out.append((rt.is_valid, rt.tested, tuple(tuple(f.path) for f in rt.failures), vsnap(rt.data.get_original())))
            except BaseException as e:
                out.append("raises " + type(e).__name__)
    else:
        for d in P_DOCS:
            try:
                vd = obj.validate(fresh(d))
                out.append((vd.is_valid, vd.num_failures, vd.num_rules_tested, vsnap(vd.cast_data),
                            tuple(tuple(tuple(f.path) for f in rt.failures) for rt in vd.rule_tests)))
            except BaseException as e:
                out.append("raises " + type(e).__name__)
    return out


MUT = {"cond": cond_mutants, "part": part_mutants, "path": path_mutants, "rule": rule_mutants, "schema": schema_mutants}


def pool(kind, tier):
    if kind == "cond":
        ts = list(LEAVES)
        for op in ("and", "or", "xor"):
            for a, b in itertools.product(POOL6, repeat=2):
                k = T.cond_kinds(a) | T.cond_kinds(b)
                if not ("key" in k and "index" in k):
                    ts.append((op, a, b))
        ts += [("and", ("or", LEAVES[0], LEAVES[6]), LEAVES[19]), ("and", LEAVES[19], ("or", LEAVES[6], LEAVES[0])),
               ("xor", ("and", LEAVES[0], LEAVES[6]), ("and", LEAVES[6], LEAVES[0]))]
        if tier == "thorough":
            d2 = [(op, a, b) for op in ("and", "or") for a in POOL6[1:4] for b in POOL6[1:4]]
            ts += [(op, a, b) for op in ("and", "xor") for a in d2[:8] for b in d2[:8]]
        return ts
    if kind == "part":
        from mc.props.c12 import LABELLED
        return gen.PARTS + LABELLED
    if kind == "path":
        return PATHS + [p for p in gen.paths(2, gen.PARTS12) if len(p[1]) == 2]
    if kind == "rule":
        return RULES + [T.rule(p, LEAVES[0]) for p in PATHS if p[2] is None and p[3] is None]
    return SCHEMAS


KINDS = ("cond", "part", "path", "rule", "schema")


DERIVE = ["length", "dtype", "map_keys", "map_values", "first", "last", "single", "all"]


def check_derived(res, pt):
    """H flavour: modifiers derive a new path from a live object.  After the original has been compared (==) with
    itself and with others, each derived path must equal a freshly built copy of the same definition, must not
    equal the original unless it behaves like it, and the original must still equal its own rebuilt copy."""
    res.count("evaluations")
    res.states.add(hash(("derive", repr(pt))))
    case = {"kind": "derive", "x": pt}
    x = T.build_path(pt)
    _ = (x == x, x == T.build_path(pt), x != T.build_path(P(pt[1] + (("prim", "zz"),))))
    conc = all(p[0] == "prim" for p in pt[1])
    bx = behaviour("path", x)
    for m in DERIVE:
        if conc and m in ("first", "last", "single", "all"):
            continue
        dt = P(pt[1], m, None) if m in ("length", "dtype", "map_keys", "map_values") else P(pt[1], None, m)
        res.count("transitions", 4)
        try:
            d = getattr(x, m)()
            f = T.build_path(dt)
            e1, e2, e3 = (d == f), (f == d), (d == x)
        except BaseException as e:
            res.violation("derive-raises:%s" % type(e).__name__, "deriving .%s() from a compared path raised %r" % (m, e), case,
                          observed=repr(e))
            return
        if not (e1 and e2):
            res.violation("copy-unequal:path:derived-%s" % ("datum" if m in DERIVE[:4] else "multi"),
                          "%s.%s() derived from an already-compared object != the same path built afresh" % (T.show(pt), m),
                          case, observed=(e1, e2), expected=(True, True))
            return
        if e3 and behaviour("path", d) != bx:
            res.violation("equal-but-different:path:derived-%s" % ("datum" if m in DERIVE[:4] else "multi"),
                          "%s == its own .%s() variant, but they behave differently" % (T.show(pt), m), case)
            return
        # chain a second modifier from the derived object
        if m == "length" and not conc:
            d2, f2 = d.first(), T.build_path(P(pt[1], "length", "first"))
            if not (d2 == f2 and f2 == d2) or (d2 == d and behaviour("path", d2) != behaviour("path", d)):
                res.violation("copy-unequal:path:derived-chain", "%s.length().first() != the same path built afresh" % T.show(pt),
                              case)
                return
    if not (x == T.build_path(pt)) or behaviour("path", x) != bx:
        res.violation("original-changed:path", "deriving modifier variants changed the original path", case)
        return
    res.count("validated")
    res.count("nontrivial")


def units(tier):
    u = [["D", lo, hi] for lo, hi in gen.chunks(len([p for p in pool("path", tier) if p[2] is None and p[3] is None]), 12)]
    for k in KINDS:
        n = len(pool(k, tier))
        u += [["P", k, lo, hi] for lo, hi in gen.chunks(n, 6)]
        u.append(["T", k])
    return u


def run_unit(unit, tier):
    res = Result()
    if unit[0] == "D":
        ps = [p for p in pool("path", tier) if p[2] is None and p[3] is None]
        for i in range(unit[1], unit[2]):
            check_derived(res, ps[i])
        res.sample({"kind": "derive", "x": ps[unit[1]]})
    elif unit[0] == "P":
        _, kind, lo, hi = unit
        ts = pool(kind, tier)
        for i in range(lo, hi):
            x = ts[i]
            check_pair(res, kind, x, x, "rebuild")
            for how, y in MUT[kind](x):
                check_pair(res, kind, x, y, how)
        res.sample({"kind": kind, "x": ts[lo], "y": ts[lo], "how": "rebuild"})
    else:
        transitivity(res, unit[1], tier)
    return res


def replay(case):
    res = Result()
    if case.get("kind") == "derive":
        check_derived(res, case["x"])
    elif case.get("triple"):
        check_triple(res, case["kind"], case["triple"])
    else:
        check_pair(res, case["kind"], case["x"], case["y"], case["how"])
    return list(res.violations.values())


def build(kind, t):
    if kind == "part" and t[0] == "prim":
        from valida.datapath import DataPath
        return DataPath(t[1]).parts[0]
    return T.build(t)


def _tuple_arg(t):
    """Does a leaf of the term carry a tuple argument?  (Specs have lists only, and a list never equals a tuple.)"""
    if not isinstance(t, tuple) or not t:
        return False
    if t[0] == "leaf":
        def tup(a):
            if T.is_path_arg(a):
                return _tuple_arg(a[1])
            if isinstance(a, tuple):
                return True
            if isinstance(a, list):
                return any(tup(i) for i in a)
            if isinstance(a, dict):
                return any(tup(v) for v in a.values())
            return False
        return any(tup(a) for a in t[3]) or any(tup(v) for _, v in t[4])
    if t[0] == "lit":
        return isinstance(t[1], tuple)
    rest = t[1:] if isinstance(t[0], str) else t        # a tagged term / a plain tuple of terms
    return any(_tuple_arg(i) for i in rest if isinstance(i, tuple))


def build_from_spec(kind, t):
    """The same definition written as a spec and loaded through the spec parser; None when the term has no spec
    spelling here (or the parser refuses it: C09 / C10 / C19 judge that)."""
    from mc import specs as S
    from valida.conditions import ConditionLike
    from valida.datapath import DataPath, ContainerValue
    from valida.rules import Rule
    from valida.schema import Schema
    if _tuple_arg(t):
        return None
    try:
        if kind == "cond":
            return ConditionLike.from_spec(S.cond_spec(t))
        if kind == "part":
            if t[0] == "prim":
                return DataPath.from_part_specs(t[1]).parts[0]
            return ContainerValue.from_spec(S.part_spec(t))
        if kind == "path":
            return DataPath.from_spec(S.path_spec(t))
        if kind == "rule":
            return Rule.from_spec(S.rule_spec(t))
        if kind == "schema":
            return Schema([Rule.from_spec(S.rule_spec(r)) for r in t[1]])
    except BaseException:
        return None
    return None


def atom(how):
    """coarse class of the change, for signatures"""
    h = how.split(":")
    for key in ("arg-numeric-type", "arg-list-tuple", "arg-value", "arg-path", "kwarg-name", "callable", "alias", "class",
                "commute", "operator", "drop-operand", "label", "kind", "datum", "multi", "modifier-order", "cast",
                "reorder", "drop-rule", "add-rule", "drop-part", "add-part", "drop-cond", "rebuild"):
        if key in h or any(x.startswith(key) for x in h):
            return key + (":" + h[-1] if key.startswith("arg-") and len(h) > 1 and h[-1] != key else "")
    return h[0]


def check_pair(res, kind, xt, yt, how):
    res.count("evaluations")
    res.states.add(hash((kind, repr(xt), repr(yt))))
    case = {"kind": kind, "x": xt, "y": yt, "how": how}
    try:
        x = build(kind, xt)
    except BaseException as e:
        res.violation("build:%s:%s" % (kind, type(e).__name__), "building %s raised %r" % (T.show(xt), e), case, observed=repr(e))
        return
    try:
        y = build(kind, yt)
    except BaseException:
        res.count("unbuildable_mutant")
        return
    res.count("transitions", 6)
    try:
        xx, xy, yx, nxy, nyx = (x == x), (x == y), (y == x), (x != y), (y != x)
        foreign = [(x == f) for f in (5, None, "a", [], {})]
    except BaseException as e:
        res.violation("eq-raises:%s:%s" % (kind, type(e).__name__), "comparing %s with %s raised %r" % (T.show(xt), T.show(yt), e),
                      case, observed=repr(e))
        return
    sig = "%s:%s" % (kind, atom(how))
    if xx is not True:
        res.violation("not-reflexive:%s" % kind, "%s != itself" % T.show(xt), case)
        return
    if xy is not yx or not isinstance(xy, bool):
        res.violation("not-symmetric:%s" % sig, "x == y is %r but y == x is %r for x=%s, y=%s" % (xy, yx, T.show(xt), T.show(yt)),
                      case, observed=(xy, yx))
        return
    if nxy is (xy) or nyx is (yx):
        res.violation("ne-not-negation:%s" % sig, "!= is not the negation of == for x=%s, y=%s" % (T.show(xt), T.show(yt)), case,
                      observed=(xy, nxy))
        return
    if any(f is True for f in foreign):
        res.violation("equal-to-foreign:%s" % kind, "%s compares equal to a foreign object" % T.show(xt), case)
        return
    if how in ("rebuild", "commute", "alias") or how.endswith(":commute"):
        if not xy:
            res.violation("copy-unequal:%s" % sig, "%s and its %s copy %s compare unequal" % (T.show(xt), how, T.show(yt)), case,
                          observed=False, expected=True)
            return
    # the same definitions written as specs and loaded by the parser are copies too (both in this one process)
    for who, t, o in (("x", xt, x), ("y", yt, y)):
        res.count("transitions")
        o2 = build_from_spec(kind, t)
        if o2 is None:
            res.count("no_spec_copy")
            continue
        try:
            same = (o2 == o) and (o == o2)
        except BaseException as e:
            res.violation("eq-raises:%s:%s" % (kind, type(e).__name__), "comparing %s with its spec-built copy raised %r" % (T.show(t), e),
                          case, observed=repr(e))
            return
        if not same:
            res.violation("copy-unequal:%s:spec-built" % kind, "%s and the same definition loaded from its spec compare unequal: %r"
                          % (T.show(t), o2), case, observed=repr(o2), expected=repr(o))
            return
    if xy:
        res.count("transitions", 2)
        bx, by = behaviour(kind, x), behaviour(kind, y)
        if bx != by:
            i = next(i for i in range(len(bx)) if bx[i] != by[i])
            res.violation("equal-but-different:%s" % sig, "x == y but they behave differently (probe %d): x=%s, y=%s"
                          % (i, T.show(xt), T.show(yt)), case, observed=by[i], expected=bx[i])
            return
        if how == "rebuild":
            # the object has now been used on every probe document: it still equals a copy built afresh, and the fresh
            # copy behaves as the used one did
            res.count("transitions", 2)
            try:
                z = build(kind, xt)
                still = (x == z) and (z == x)
                bz = behaviour(kind, z)
            except BaseException as e:
                res.violation("eq-raises:%s:%s" % (kind, type(e).__name__), "comparing the used %s with a fresh copy raised %r"
                              % (T.show(xt), e), case, observed=repr(e))
                return
            if not still:
                res.violation("copy-unequal:%s:after-use" % kind, "after being used on the probe documents %s no longer equals a "
                              "copy built afresh: %r" % (T.show(xt), x), case, observed=repr(x), expected=repr(z))
                return
            if bz != bx:
                i = next(i for i in range(len(bx)) if bx[i] != bz[i])
                res.violation("equal-but-different:%s:after-use" % kind, "a used %s and a fresh copy are equal but behave differently "
                              "(probe %d)" % (T.show(xt), i), case, observed=bx[i], expected=bz[i])
                return
        res.count("nontrivial")
    res.count("validated")
    res.outcome((kind, xy))


def transitivity(res, kind, tier):
    ts = pool(kind, tier)
    # a pool of <= 60 objects rich in equal-but-distinct members: originals + their equal-looking mutants
    cand = []
    for x in ts:
        cand.append(x)
        for how, y in MUT[kind](x):
            if atom(how).split(":")[0] in ("arg-numeric-type", "commute", "alias", "rebuild", "reorder", "arg-list-tuple", "kind"):
                cand.append(y)
    seen, sel = set(), []
    for t in cand:
        r = repr(t)
        if r not in seen:
            seen.add(r)
            sel.append(t)
    step = max(1, len(sel) // 60)
    sel = (sel[::step])[:60]
    objs = []
    for t in sel:
        try:
            objs.append((t, build(kind, t)))
        except BaseException:
            pass
    n = len(objs)
    eq = [[objs[i][1] == objs[j][1] for j in range(n)] for i in range(n)]
    res.count("transitions", n * n)
    classes = 0
    for i in range(n):
        for j in range(n):
            if not eq[i][j]:
                continue
            for k in range(n):
                res.count("evaluations")
                if eq[j][k] and not eq[i][k]:
                    res.violation("not-transitive:%s" % kind, "a == b and b == c but a != c: a=%s b=%s c=%s"
                                  % (T.show(objs[i][0]), T.show(objs[j][0]), T.show(objs[k][0])),
                                  {"kind": kind, "triple": [objs[i][0], objs[j][0], objs[k][0]]})
                    return
    # explicit families of near-equal terms (the sampled pool may hold only two of them): the same part unlabelled and
    # with two different labels; the same leaf with an argument as int / float / bool; operands in the three orders
    for fam in near_equal_families(kind):
        fobjs = []
        for t in fam:
            try:
                fobjs.append((t, build(kind, t)))
            except BaseException:
                pass
        for (ta, a), (tb, b), (tc, c) in itertools.permutations(fobjs, 3):
            res.count("evaluations")
            res.count("transitions", 3)
            try:
                bad = (a == b) and (b == c) and not (a == c)
            except BaseException as e:
                res.violation("eq-raises:%s:%s" % (kind, type(e).__name__), "comparing raised %r" % (e,), {"kind": kind, "triple": [ta, tb, tc]})
                return
            if bad:
                res.violation("not-transitive:%s" % kind, "a == b and b == c but a != c: a=%s b=%s c=%s" % (T.show(ta), T.show(tb), T.show(tc)),
                              {"kind": kind, "triple": [ta, tb, tc]})
                return
    res.states.add(hash((kind, "triples", n)))
    res.count("validated", n * n * n)
    res.count("nontrivial", sum(1 for i in range(n) for j in range(n) if i != j and eq[i][j]))


def near_equal_families(kind):
    parts = [[p[:-1] + (lab,) for lab in (None, "L", "M", "")] for p in
             (("map", ("lit", "a"), None, None), ("list", ("lit", 0), None, None), ("mol", ("lit", 1), ("lit", 1), None, None),
              ("map", None, gen.V_DICT, None), ("list", None, None, None))]
    conds = [[L("Value", "equal_to", v) for v in (1, 1.0, True)], [L("Value", "in_", v) for v in ([1, 2], [1.0, 2], [True, 2], (1, 2))],
             [("and", a, b) for a, b in itertools.permutations([LEAVES[0], LEAVES[6], LEAVES[19]], 2)]]
    if kind == "cond":
        return conds
    if kind == "part":
        return parts
    if kind == "path":
        return [[P((("prim", "x"), p)) for p in fam] for fam in parts] + [[P((("prim", v),)) for v in (1, 1.0, True)]]
    if kind == "rule":
        return [[T.rule(P((p,)), LEAVES[0]) for p in fam] for fam in parts] + [[T.rule(P((("prim", "a"),)), c) for c in fam] for fam in conds]
    if kind == "schema":
        return [[("schema", (T.rule(P((p,)), LEAVES[0]),)) for p in fam] for fam in parts]
    return []


def check_triple(res, kind, triple):
    a, b, c = (build(kind, t) for t in triple)
    if a == b and b == c and not (a == c):
        res.violation("not-transitive:%s" % kind, "a == b and b == c but a != c", {"kind": kind, "triple": triple})
