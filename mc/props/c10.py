"""C10 -- path, part, rule and YAML specs build the same objects as the Python API.

T-space, five sub-spaces: (a) part specs in every spelling, (b) path specs with datum /
multiplicity suffixes in either order, aliases and letter case, (c) delimiter-separated path
strings, (d) rule specs (path, condition, cast, doc in every accepted shape), (e) schemas as
YAML text (flow and block style, from text and from file).
Oracle: parsed == API-built, same types, and the same behaviour on probe documents.
"""
import io
import itertools
import json
import os
import tempfile

from mc import terms as T, ref, gen, specs as S
from mc.enc import fresh
from mc.run import Result
from mc.snapshot import vsnap
from mc.props.c03 import same_node, same_value, shape
from mc.props.c12 import as_pairs, same_pairs, LABELLED

from valida.datapath import DataPath, ContainerValue
from valida.rules import Rule
from valida.schema import Schema

META = {
    "rule": "(a) 48 part terms x {long, shorthand, condition-only} styles x {type given, omitted}; (b) paths of length <= 2 "
            "over 12 parts x 5 datum x 5 multiplicity x 2 orders x key spellings (aliases, 3 letter cases); (c) every "
            "segment list of length 0-3 over {a,b,0,1,-1,1.5,'',0.0,-0.0,1e0} x delimiters '/' and '.'; (d) rules = 8 paths x 7 conditions "
            "x 3 casts x 8 doc shapes x {list, tuple} path containers; (e) every 1-2 rule schema over a 10-rule pool as "
            "YAML flow text, YAML block text and a YAML file; a case is one (term, spelling) pair; non-trivial = parsed, "
            "equal and compared on the probe documents",
    "assumptions": ["YAML syntax errors are outside the property (ruamel never hands such a spec to valida)"],
    "bounds": {"quick": {"all sub-spaces": "complete as described; (b) paths of length <= 1"},
               "thorough": {"all sub-spaces": "complete as described; (b) paths of length <= 2"}},
}

L = T.leaf
P = T.path
PROBE = gen.docs_type2()[:80] + [
    {"a": {"b": 1, "c": [1, {"a": 1}]}, "b": [0, 1, 2], 0: "x", 1: {"a": 2}, 1.5: "f", "": 0, "-1": 5, -1: 6, "0": "s", "1.5": "t"},
    [[1, 2], {"a": 1, 0: 2}, "a", 1, {"b": {"a": 1}}],
    {"0": {"1": "x", 1: "y"}, 0: [5, 6]},
]


# ----------------------------------------------------------------------------- (a) part specs
def part_spellings(p):
    """-> list of (spec, note)"""
    tag = p[0]
    out = []
    multi = multi_shorthand(p)
    if multi is not None:
        out.append(multi)
    for style in ("long", "short"):
        sp = S.part_spec(p, style)
        out.append(sp)
        if tag == "mol":
            sp2 = dict(sp)
            del sp2["type"]  # omitted type => map_or_list_value
            out.append(sp2)
    # condition-only forms: the combined condition under `condition:` (map / list), or
    # `map_condition:` / `list_condition:` / `condition:` (mol)
    names = {"map": ("key", "value"), "list": ("index", "value"), "mol": ("key", "index", "value")}[tag]
    cls_of = {"key": "Key", "index": "Index", "value": "Value"}
    conds = {}
    for n, c in zip(names, p[1:]):
        if c is not None:
            conds[n] = T.leaf(cls_of[n], "equal_to", c[1]) if c[0] == "lit" else c
    typ = {"map": "map_value", "list": "list_value", "mol": "map_or_list_value"}[tag]
    sp = {"type": typ}
    if tag in ("map", "list"):
        first = conds.get(names[0])
        val = conds.get("value")
        comb = first if val is None else (val if first is None else ("and", first, val))
        if comb is not None:
            sp["condition"] = S.cond_spec(comb)
    else:
        if "key" in conds:
            sp["map_condition"] = S.cond_spec(conds["key"])
        if "index" in conds:
            sp["list_condition"] = S.cond_spec(conds["index"])
        if "value" in conds:
            sp["condition"] = S.cond_spec(conds["value"])
    if p[-1]:
        sp["label"] = p[-1]
    out.append(sp)
    uniq = []
    for s in out:
        if s not in uniq:
            uniq.append(s)
    return uniq


def multi_shorthand(p):
    """Several dotted shorthands of the same datum kind at once: an and-combination of leaves is
    written as one shorthand key per leaf ({'value.greater_than': 0, 'value.less_than': 2})."""
    tag = p[0]
    names = {"map": ("key", "value"), "list": ("index", "value"), "mol": ("key", "index", "value")}[tag]
    cls_of = {"key": "Key", "index": "Index", "value": "Value"}
    spec = {"type": {"map": "map_value", "list": "list_value", "mol": "map_or_list_value"}[tag]}
    used = False
    for n, c in zip(names, p[1:]):
        if c is None:
            continue
        if c[0] == "lit":
            c = T.leaf(cls_of[n], "equal_to", c[1])
        leaves = []

        def flat(t):
            if t[0] == "and":
                flat(t[1])
                flat(t[2])
            else:
                leaves.append(t)
        flat(c)
        if len(leaves) > 1 and all(x[0] == "leaf" for x in leaves):
            keys = [next(iter(S.cond_spec(x))) for x in leaves]
            if len(set(keys)) == len(keys):
                for x in leaves:
                    spec.update(S.cond_spec(x))
                used = True
                continue
        if c[0] == "leaf":
            spec.update(S.cond_spec(c))
        else:
            spec[n] = S.cond_spec(c)
    if p[-1]:
        spec["label"] = p[-1]
    return spec if used else None


# (one datum kind per part: with several kinds the and-tree the parser builds is associated differently
# from MapValue(key=.., value=..), and equality of differently associated trees is not part of C10)
_K2 = ("and", T.leaf("Key", "greater_than", "a"), T.leaf("KeyLength", "less_than", 3))
_I2 = ("and", T.leaf("Index", "greater_than", 0), T.leaf("Index", "less_than", 3))
_V3 = ("and", ("and", T.leaf("ValueDataType", "not_equal_to", str), T.leaf("Value", "not_equal_to", 1)), T.leaf("Value", "truthy"))
MULTI_SHORT_PARTS = [
    ("map", _K2, None, None), ("list", _I2, None, "L"), ("mol", _K2, None, None, None), ("mol", None, _I2, None, None),
    ("map", None, _V3, None), ("list", None, _V3, None), ("mol", None, None, _V3, "L"),
]


# ----------------------------------------------------------------------------- (b) path specs
def path_key_spellings(datum, multi, order):
    steps = [datum, multi] if order == "dm" else [multi, datum]
    steps = [s for s in steps if s]
    alias = {"dtype": ["dtype", "type"], "length": ["length", "len"]}
    out = []
    for names in itertools.product(*[alias.get(s, [s]) for s in steps]):
        toks = ["path"] + list(names)
        for f in (str.lower, str.upper, str.capitalize):
            out.append(".".join(f(t) for t in toks))
    uniq = []
    for k in out:
        if k not in uniq:
            uniq.append(k)
    return uniq


# ----------------------------------------------------------------------------- (c) path strings
SEGS = ["a", "b", "0", "1", "-1", "1.5", "", "0.0", "-0.0", "1e0"]


def seg_part(s):
    """The API-built part a path-string segment stands for."""
    try:
        i = int(s)
        return ("mol", T.leaf("Key", "in_", (s, i)), ("lit", i), None, None)
    except ValueError:
        pass
    try:
        f = float(s)
        return ("map", T.leaf("Key", "in_", (s, f)), None, None)
    except ValueError:
        return ("prim", s)


# ----------------------------------------------------------------------------- (d) rule specs
R_PATHS = [(), (("prim", "a"),), (("prim", "a"), ("prim", 0)), (gen.BARE[0],), (("prim", "a"), gen.BARE[1]),
           (gen.MAPS[5],), (gen.MOLS[6], ("prim", "a")), (("map", ("lit", "a"), None, "L"), gen.LISTS[4])]
R_CONDS = [T.NULL, L("ValueDataType", "equal_to", int), L("Value", "in_range", 0, 5),
           ("and", L("Value", "greater_than", 0), ("or", L("Value", "truthy"), L("ValueLength", "less_than", 2))),
           L("Value", "keys_contain_any_of", "a", "b"),
           L("ValueLength", "in_range", lower=0, upper=("$path", P((("prim", "b"),), "length"))),     # literal before path
           L("Value", "in_", [1, ("$path", P((("prim", "b"),)))]),
           # literal mapping arguments with 'path' among several keys (escaped in the spec): first, last, in a list
           L("Value", "equal_to", {"name": "x", "path": ["b"]}), L("Value", "in_", [{"path": ["b"], "k": 1}, 2]),
           L("Value", "items_contain", a={"n": 1, "Path.first": ["b"], "z": 2}),
           # a literal one-item mapping keyed like the callable's own parameter
           # a path-like literal below the one level the parser inspects (taken verbatim)
           L("Value", "equal_to", {"opts": {"target": {"path": ["x"]}}}), L("Value", "in_", [{"o": [{"path": ["x"]}]}, 1]),
           L("Value", "equal_to", {"value": 3}), ("or", L("Value", "in_", {"value": "abc"}), L("ValueLength", "equal_to", {"value": 1}))]
R_CASTS = [(), (("str", "bool"),), (("str", "int"),)]
DOC_FORMS = [
    None, "a text\n", ["line 1 ", " line 2\n"], {"description": "d\n"}, {"description": ["d1", " d2 "]},
    {"description": "d", "examples": [" e1\n", "e2"]}, {"examples": ["only example "]}, {"description": [], "examples": []},
]
YAML_WORDS = ["on", "off", "yes", "no", "y", "n", "Yes", "NO", "On", "010", "0o10", "0x1F", "1e3", "1_000", "~", "null", "Null", "true",
              "True", "1:30", ".5", "+1", "<<", "=", "2001-01-01", "1.", "-", "a: b", "#x", "", " lead", "'q'"]
R_DOCS = [
    {"cfg": {w: w for w in YAML_WORDS}, **{w: w for w in YAML_WORDS}}, {"cfg": {True: "on", 8: "010", 1000: "1e3", None: "~"}, True: "yes", 8: "010"},
    {"a": "3", "b": 1}, {"a": ["3", 1, "true"]}, {"a": {"a": [[1], []], "b": 2}, "b": {"a": "1"}}, [{"a": 1}, {"a": "x"}],
    {"a": 7}, {"a": [], "c": [1, 2]},
]


def norm_doc(form):
    if form is None:
        return None
    if isinstance(form, str):
        form = [form]
    if isinstance(form, list):
        form = {"description": form}
    d = form.get("description", [])
    if isinstance(d, str):
        d = [d]
    return {"description": [i.strip() for i in d], "examples": [i.strip() for i in form.get("examples", [])]}


def rule_behaviour(r, doc):
    try:
        rt = r.test(fresh(doc))
        return ("ok", rt.is_valid, rt.tested, tuple(tuple(f.path) for f in rt.failures), vsnap(rt.data.get_original()))
    except BaseException as e:
        return ("raises", type(e).__name__)


def schema_behaviour(s, doc):
    try:
        vd = s.validate(fresh(doc))
        return ("ok", vd.is_valid, vd.num_failures, vd.num_rules_tested, vsnap(vd.cast_data),
                tuple(tuple(tuple(f.path) for f in rt.failures) for rt in vd.rule_tests))
    except BaseException as e:
        return ("raises", type(e).__name__)


# ------------------------------------------------------------------------------------ driver
def units(tier):
    u = [["part", i] for i in range(len(gen.PARTS) + len(LABELLED) + len(MULTI_SHORT_PARTS))]
    u += [["callpart", lo, hi] for lo, hi in gen.chunks(len(gen.callable_parts()), 24)]
    u += [["primhist", i] for i in range(len(PRIM_PATHS))]
    plen = 1 if tier == "quick" else 2
    npaths = len(list(gen.paths(plen, gen.PARTS12)))
    u += [["path", plen, lo, hi] for lo, hi in gen.chunks(npaths, 6)]
    u += [["str", n, d] for n in range(4) for d in ("/", ".")]
    u += [["rule", i] for i in range(len(R_PATHS))]
    u += [["yaml", i] for i in range(10)] + [["yamlwords"]]
    u += [["alias"]]
    return u


YAML_POOL = [T.rule(P(R_PATHS[i]), R_CONDS[j], R_CASTS[k]) for i, j, k in
             [(0, 0, 0), (1, 1, 2), (1, 3, 0), (2, 2, 2), (3, 1, 1), (4, 3, 2), (5, 4, 0), (6, 1, 0), (7, 1, 2), (1, 0, 1)]]


def run_unit(unit, tier):
    res = Result()
    kind = unit[0]
    if kind == "callpart":
        # every comparison callable in every condition position of a part, all spellings of the part spec
        cps = gen.callable_parts()
        for i in range(unit[1], unit[2]):
            for si, sp in enumerate(part_spellings(cps[i])):
                check_part(res, cps[i], sp, key=("callpart", i, si))
    elif kind == "part":
        p = (gen.PARTS + LABELLED + MULTI_SHORT_PARTS)[unit[1]]
        if p[0] != "prim":
            for si, sp in enumerate(part_spellings(p)):
                check_part(res, p, sp, key=("part", unit[1], si))
            res.sample({"kind": "part", "part": p, "spec": part_spellings(p)[-1]})
    elif kind == "primhist":
        # H-space for hidden parser state: from the pristine state parse path i, then every other
        # primitive path (hash-equal parts of different type: 1 / 1.0 / True, 0 / 0.0 / False)
        first = PRIM_PATHS[unit[1]]
        check_prim(res, first, [])
        for q in PRIM_PATHS:
            check_prim(res, q, [first])
        res.sample({"kind": "primhist", "parts": list(first), "before": []})
    elif kind == "path":
        ps = list(gen.paths(unit[1], gen.PARTS12))
        for pi in range(unit[2], unit[3]):
            parts = ps[pi][1]
            conc = all(x[0] == "prim" for x in parts)
            for style in ("long", "short"):
                check_path(res, P(parts), None, style, key=("pp", pi, style))
            for datum in T.DATUMS:
                for multi in T.MULTIS:
                    if conc and multi:
                        continue
                    for order in ("dm", "md") if datum and multi else ("dm",):
                        for ki, k in enumerate(path_key_spellings(datum, multi, order)):
                            check_path(res, P(parts, datum, multi, order), k, "long", key=("ps", pi, datum, multi, order, ki))
        res.sample({"kind": "path", "path": ps[unit[2]], "key": "PATH.LEN", "style": "long"})
    elif kind == "str":
        _, n, delim = unit
        for segs in itertools.product(SEGS, repeat=n):
            check_str(res, list(segs), delim, key=("str", segs, delim))
        res.sample({"kind": "str", "segments": ["a", "0"][:n], "delimiter": delim})
    elif kind == "alias":
        check_aliased(res)
    elif kind == "yamlwords":
        # strings that other YAML dialects / versions read as something else (booleans, octal / hex / sexagesimal
        # numbers, null, the merge key) as path parts, condition arguments and part labels: the schema text is what a
        # YAML 1.2 safe dump of the spec gives (plain scalars where 1.2 allows them) and its flow form
        for wi, w in enumerate(YAML_WORDS):
            rt1 = T.rule(P((("prim", "cfg"), ("prim", w))), L("Value", "in_", [w, "zz"]))
            rt2 = T.rule(P((("map", ("lit", w), None, w or "empty"),)), L("Value", "equal_to", w), (("str", "int"),))
            check_yaml(res, [rt1], key=("yamlwords", wi, 1))
            check_yaml(res, [rt2, rt1], key=("yamlwords", wi, 2))
    elif kind == "rule":
        p = R_PATHS[unit[1]]
        for ci, c in enumerate(R_CONDS):
            for cast in R_CASTS:
                for di, form in enumerate(DOC_FORMS):
                    for cont in ("list", "tuple"):
                        for style in ("long", "short"):
                            check_rule(res, T.rule(P(p), c, cast), form, cont, style, key=("rule", unit[1], ci, cast, di, cont, style))
        res.sample({"kind": "rule", "rule": T.rule(P(p), R_CONDS[1], R_CASTS[1]), "doc_form": DOC_FORMS[5], "container": "list", "style": "short"})
    else:
        i = unit[1]
        check_yaml(res, [YAML_POOL[i]], key=("yaml", i))
        for j in range(10):
            check_yaml(res, [YAML_POOL[i], YAML_POOL[j]], key=("yaml", i, j))
        res.sample({"kind": "yaml", "rules": [YAML_POOL[i]]})
    return res


PRIM_PATHS = [(1,), (1.0,), (True,), (0,), (0.0,), (False,), ("a", 1), ("a", 1.0), ("a", True), ("1",), (-1,), (-1.0,),
              ("a", 0), ("a", 0.0), ("a", False), (1, "a"), (1.0, "a")]


def check_prim(res, parts, before):
    """from_part_specs(*parts) == DataPath(*parts), type-exactly, after `before` was parsed."""
    res.count("evaluations")
    res.states.add(hash(("prim", repr(parts), repr(before))))
    case = {"kind": "primhist", "parts": list(parts), "before": [list(b) for b in before]}
    for b in before:
        DataPath.from_part_specs(*b)
        Rule.from_spec({"path": list(b), "condition": {}})
    res.count("transitions", 2)
    built = DataPath(*parts)
    for how, parsed in (("from_part_specs", DataPath.from_part_specs(*parts)),
                        ("Rule.from_spec", Rule.from_spec({"path": list(parts), "condition": {}}).path)):
        if not (parsed == built) or vsnap(parsed) != vsnap(built):
            res.violation("primhist:%s" % how, "%s(%r) after parsing %r gives %r, the API builds %r"
                          % (how, parts, before, parsed, built), case, observed=repr(parsed), expected=repr(built))
            return
    res.count("validated")
    if before:
        res.count("nontrivial")


ALIAS_PARTS = [gen.BARE[0], gen.BARE[1], gen.MAPS[5], gen.LISTS[4], gen.MOLS[6], ("map", ("lit", "a"), None, "L")]


def check_aliased(res, only=None):
    """Part specs / sub-specs shared inside one spec structure: [s, s], ['a', s, s], a rule whose path uses s twice, a YAML
    document with &anchor / *alias.  They must parse like two separate equal copies."""
    for pi, p in enumerate(ALIAS_PARTS):
        if only is not None and pi != only:
            continue
        for style in ("long", "short"):
            res.count("evaluations")
            res.states.add(hash(("alias", pi, style)))
            case = {"kind": "alias", "index": pi}
            s = S.part_spec(p, style)
            built = _api(res, lambda: T.build_path(P((("prim", "a"), p, p))), case, "path")
            if built is None:
                return
            res.count("transitions", 4)
            try:
                got = {
                    "from_part_specs": DataPath.from_part_specs("a", s, s),
                    "from_spec": DataPath.from_spec({"path": ["a", s, s]}),
                    "Rule.from_spec": Rule.from_spec({"path": ["a", s, s], "condition": {}}).path,
                }
                y = "rules:\n- path: [a, &p %s, *p]\n  condition: {}\n" % json.dumps(_yamlable(s))
                got["from_yaml"] = Schema.from_yaml(y).rules[0].path
            except BaseException as e:
                res.violation("alias:parse:%s" % type(e).__name__, "a spec using the part spec %r twice was rejected: %r" % (s, e), case,
                              observed=repr(e))
                continue
            bad = [k for k, v in got.items() if not (v == built and built == v)]
            if bad:
                res.violation("alias:unequal", "%s of a path using the same part-spec object twice gives %r, not %r"
                              % (bad[0], got[bad[0]], built), case, observed=repr(got[bad[0]]), expected=repr(built))
                continue
            res.count("validated")
            res.count("nontrivial")


def _yamlable(x):
    return json.loads(json.dumps(x, default=lambda t: S.TYPE_NAME[t]))


def replay(case):
    res = Result()
    k = case["kind"]
    if k == "alias":
        check_aliased(res, only=case["index"])
        return list(res.violations.values())
    if k == "primhist":
        check_prim(res, tuple(case["parts"]), [tuple(b) for b in case["before"]])
        return list(res.violations.values())
    if k == "part":
        check_part(res, case["part"], case["spec"], key=("replay",))
    elif k == "path":
        check_path(res, case["path"], case.get("key"), case["style"], key=("replay",))
    elif k == "str":
        check_str(res, case["segments"], case["delimiter"], key=("replay",))
    elif k == "rule":
        check_rule(res, case["rule"], case["doc_form"], case["container"], case["style"], key=("replay",))
    else:
        check_yaml(res, case["rules"], key=("replay",))
    return list(res.violations.values())


def _same_selection(res, a, b, what, case):
    for doc in PROBE:
        d = fresh(doc)
        res.count("transitions", 2)
        try:
            x = as_pairs(a.get_data(d, return_paths=True), a.is_concrete)
            y = as_pairs(b.get_data(d, return_paths=True), b.is_concrete)
        except BaseException as e:
            res.violation("%s:get-raises:%s" % (what, type(e).__name__), "get_data raised %r" % (e,), case, observed=repr(e))
            return False
        if a.DATUM_TYPE.value or a.MULTI_TYPE.value:
            same = vsnap(x) == vsnap(y)
        else:
            same = same_pairs(x, y)
        if not same:
            res.violation("%s:behaviour" % what, "parsed and API-built objects select differently from %r" % (doc,), case,
                          observed=y, expected=x)
            return False
    return True


def _api(res, fn, case, what):
    try:
        return fn()
    except BaseException as e:
        res.violation("api-build:%s:%s" % (what, type(e).__name__), "building the API-side %s raised %r" % (what, e), case,
                      observed=repr(e))
        return None


def check_part(res, p, spec, key):
    res.count("evaluations")
    res.state(*key)
    case = {"kind": "part", "part": p, "spec": spec}
    built = _api(res, lambda: T.build_part(p), case, "part")
    if built is None:
        return
    res.count("transitions")
    try:
        parsed = ContainerValue.from_spec(fresh(spec))
    except BaseException as e:
        res.violation("part:parse:%s:%s" % (type(e).__name__, p[0]), "part spec %r was rejected: %r" % (spec, e), case,
                      observed=repr(e), expected=T.show(p))
        return
    if type(parsed) is not type(built) or not (parsed == built and built == parsed):
        res.violation("part:unequal:%s" % p[0], "part spec %r parses to %r, not equal to %r" % (spec, parsed, built), case,
                      observed=repr(parsed), expected=repr(built))
        return
    if _same_selection(res, DataPath(built), DataPath(parsed), "part", case):
        res.count("validated")
        res.count("nontrivial")


def check_path(res, pt, key_spelling, style, key):
    res.count("evaluations")
    res.state(*key)
    case = {"kind": "path", "path": pt, "key": key_spelling, "style": style}
    specs = [S.part_spec(x, style) for x in pt[1]]
    res.count("transitions")
    try:
        built = T.build_path(pt)
    except ValueError:
        res.note("modifier refused at build")
        return
    except BaseException as e:
        res.violation("api-build:path:%s" % type(e).__name__, "building %s raised %r" % (T.show(pt), e), case, observed=repr(e))
        return
    try:
        if key_spelling is None:
            parsed = DataPath.from_part_specs(*fresh(specs))
        else:
            parsed = DataPath.from_spec({key_spelling: fresh(specs)})
    except BaseException as e:
        res.violation("path:parse:%s" % type(e).__name__, "path spec %r (key %r) was rejected: %r" % (specs, key_spelling, e),
                      case, observed=repr(e), expected=T.show(pt))
        return
    if type(parsed) is not type(built) or not (parsed == built and built == parsed):
        res.violation("path:unequal", "path spec %r: %r parses to %r, not equal to %r" % (key_spelling, specs, parsed, built),
                      case, observed=repr(parsed), expected=repr(built))
        return
    if pt[2] is None or True:
        if _same_selection_safe(res, built, parsed, case):
            res.count("validated")
            res.count("nontrivial")


def _same_selection_safe(res, a, b, case):
    """like _same_selection, but a datum modifier undefined on a node / `single` with several
    matches raises on both sides alike (C04): compare outcomes."""
    for doc in PROBE[::4]:
        outs = []
        for obj in (a, b):
            res.count("transitions")
            try:
                outs.append(("ok", vsnap(obj.get_data(fresh(doc), return_paths=True))))
            except BaseException as e:
                outs.append(("raises", type(e).__name__))
        if outs[0] != outs[1]:
            res.violation("path:behaviour", "parsed and API-built paths behave differently on %r" % (doc,), case,
                          observed=outs[1], expected=outs[0])
            return False
    return True


def check_str(res, segs, delim, key):
    s = delim.join(segs)
    if segs and s == "":
        return  # [''] is spelled like the empty path
    if delim == "." and any("." in x for x in segs):
        return  # '1.5' would be split by the '.' delimiter: not a spelling of these segments
    res.count("evaluations")
    res.state(*key)
    case = {"kind": "str", "segments": segs, "delimiter": delim}
    term = P(tuple(seg_part(x) for x in segs))
    built = _api(res, lambda: T.build_path(term), case, "path")
    if built is None:
        return
    res.count("transitions")
    try:
        parsed = DataPath.from_str(s, delimiter=delim) if delim != "/" else DataPath.from_str(s)
    except BaseException as e:
        res.violation("str:parse:%s" % type(e).__name__, "from_str(%r) raised %r" % (s, e), case, observed=repr(e))
        return
    if not (parsed == built and built == parsed):
        res.violation("str:unequal", "from_str(%r) = %r, not equal to %r" % (s, parsed, built), case, observed=repr(parsed),
                      expected=repr(built))
        return
    # absolute: each segment selects the child whose key is the text or its number, or whose index is the number
    for doc in PROBE[-3:] + PROBE[:20]:
        d = fresh(doc)
        want = [(n, cp) for cp, n in ref.walk(term, d)]
        res.count("transitions")
        try:
            got = as_pairs(parsed.get_data(d, return_paths=True), parsed.is_concrete)
        except BaseException as e:
            res.violation("str:get-raises:%s" % type(e).__name__, "get_data raised %r" % (e,), case, observed=repr(e))
            return
        if not same_pairs(got, want):
            res.violation("str:behaviour", "from_str(%r) selects the wrong nodes from %r" % (s, doc), case, observed=got,
                          expected=want)
            return
    res.count("validated")
    if segs:
        res.count("nontrivial")


def check_rule(res, rt, doc_form, cont, style, key):
    res.count("evaluations")
    res.state(*key)
    case = {"kind": "rule", "rule": rt, "doc_form": doc_form, "container": cont, "style": style}
    spec = S.rule_spec(rt, style)
    if cont == "tuple":
        spec["path"] = tuple(spec["path"])
    if rt[2][0] == "null" and style == "short":
        spec["condition"] = None
    if doc_form is not None:
        spec["doc"] = fresh(doc_form)
    built = _api(res, lambda: T.build_rule(rt), case, "rule")
    if built is None:
        return
    res.count("transitions")
    try:
        parsed = Rule.from_spec(spec)
    except BaseException as e:
        res.violation("rule:parse:%s" % type(e).__name__, "rule spec %r was rejected: %r" % (spec, e), case, observed=repr(e),
                      expected=T.show(rt))
        return
    cast_equal = (parsed.cast or None) == (built.cast or None)
    if not (parsed.path == built.path and parsed.condition == built.condition and cast_equal):
        res.violation("rule:unequal", "rule spec %r parses to %r, not equal to %r" % (spec, parsed, built), case,
                      observed=repr(parsed), expected=repr(built))
        return
    if rt[3] and not (parsed == built and built == parsed):
        res.violation("rule:unequal-eq", "parsed rule != API-built rule", case, observed=repr(parsed), expected=repr(built))
        return
    def _stripped(d):   # whether entries are stored stripped or verbatim is not part of the statement
        return None if not d else {k: [str(i).strip() for i in d.get(k, [])] for k in ("description", "examples")}
    if _stripped(parsed.doc) != _stripped(norm_doc(doc_form)) and not (doc_form is None and not parsed.doc):
        res.violation("rule:doc", "doc %r is normalised to %r" % (doc_form, parsed.doc), case, observed=parsed.doc,
                      expected=norm_doc(doc_form))
        return
    for doc in R_DOCS:
        res.count("transitions", 2)
        a, b = rule_behaviour(built, doc), rule_behaviour(parsed, doc)
        if a != b:
            res.violation("rule:behaviour", "parsed and API-built rules test %r differently" % (doc,), case, observed=b, expected=a)
            return
    res.count("validated")
    res.count("nontrivial")


def yaml_block(data):
    from ruamel.yaml import YAML
    y = YAML(typ="safe")
    y.default_flow_style = False
    buf = io.StringIO()
    y.dump(data, buf)
    return buf.getvalue()


def check_yaml(res, rule_terms, key):
    res.count("evaluations")
    res.state(*key)
    case = {"kind": "yaml", "rules": rule_terms}
    specs = []
    for i, rt in enumerate(rule_terms):
        sp = S.rule_spec(rt, "short" if i % 2 else "long")
        if i == 0:
            sp["doc"] = {"description": "text with `code`\n", "examples": ["ex "]}
        specs.append(sp)
    if not S.jsonable(specs):
        # type objects -> names for YAML
        specs = json.loads(json.dumps(specs, default=lambda t: S.TYPE_NAME[t]))
    built = _api(res, lambda: T.build_schema(("schema", tuple(rule_terms))), case, "schema")
    if built is None:
        return
    texts = [("flow", S.schema_yaml_flow(specs)), ("block", yaml_block({"rules": specs}))]
    for how, text in texts:
        for via in ("text", "file"):
            res.count("transitions")
            try:
                if via == "text":
                    parsed = Schema.from_yaml(text)
                else:
                    fd, path = tempfile.mkstemp(suffix=".yaml")
                    try:
                        with os.fdopen(fd, "w") as fh:
                            fh.write(text)
                        parsed = Schema.from_yaml_file(path)
                    finally:
                        os.unlink(path)
            except BaseException as e:
                res.violation("yaml:parse:%s:%s" % (how, type(e).__name__), "schema YAML (%s, %s) was rejected: %r\n%s"
                              % (how, via, e, text), case, observed=repr(e))
                return
            if not (parsed == built and built == parsed):
                res.violation("yaml:unequal:%s" % how, "YAML (%s) parses to an unequal schema:\n%s" % (how, text), case,
                              observed=repr(parsed.rules), expected=repr(built.rules))
                return
            for doc in R_DOCS:
                res.count("transitions", 2)
                a, b = schema_behaviour(built, doc), schema_behaviour(parsed, doc)
                if a != b:
                    res.violation("yaml:behaviour:%s" % how, "YAML-loaded and API-built schemas validate %r differently" % (doc,),
                                  case, observed=b, expected=a)
                    return
    res.count("validated")
    res.count("nontrivial")
