"""C20 -- documentation tree structurally faithful; its HTML well-formed and escaped.

T-space: (a) every prefix-closed schema over a 6-part alphabet (string / integer keys incl. one
made of HTML metacharacters, bare map / list parts) up to a size bound, with conditions cycled
from a menu; (b) a fixed tree whose root / inner conditions range over every and-combination
(all orders, 1-3 operands) of the condition menu plus or/xor combinations; x doc blocks x every
sub-tree root x nested in {False, True} x anchor root.  Oracle: structural invariants of the
tree against the schema's rules; strict HTML stack parser; escaping of marker strings.
"""
import html
import itertools
from html.parser import HTMLParser

from mc import terms as T, gen
from mc.run import Result

from valida.schema import Schema, write_tree_html
from valida.datapath import DataPath

META = {
    "rule": "(a) all prefix-closed path sets of <= n paths over {'a','b',0,'<k&\"'>',two 40-character keys differing in the middle,MapValue(),ListValue()} x 3 condition "
            "assignments x 4 doc blocks; (b) a 7-rule tree (string and integer keys with rules of their own) x every and-combination (every order, 1-3 operands of a 18-condition "
            "menu) + or / xor combinations at the root and at an inner node; every case x from_path in {none, every rule path} x "
            "nested in {False, True} x anchor_root in {None, 'root'} x heading_start_level in {1, 5}; (c) chains of 7-9 nested levels (one rule per prefix; keys and bare parts interleaved); a case is one (schema, from_path); non-trivial = the tree "
            "has >= 2 nodes and all structural, required-flag and HTML checks ran",
    "assumptions": ["anchor_root is caller-supplied page text, not schema text: kept benign",
                    "the text layout of type / condition summaries is not judged, only that schema text appears escaped"],
    "bounds": {"quick": {"paths_per_schema": "<= 3", "and_operands": "1-2"},
               "thorough": {"paths_per_schema": "<= 4", "and_operands": "1-3"}},
}

L = T.leaf
P = T.path
MARK = "<k&\"'>"
LONG1 = "maximum_iterations_for_inner_solver_loop"
LONG2 = "maximum_iterations_for_outer_solver_loop"      # differs from LONG1 only in the middle
ALPHA = [("prim", "a"), ("prim", "b"), ("prim", 0), ("prim", MARK), gen.BARE[0], gen.BARE[1], ("prim", LONG1), ("prim", LONG2)]

MENU = [
    L("ValueDataType", "equal_to", dict), L("ValueDataType", "equal_to", list), L("ValueDataType", "equal_to", str),
    L("ValueDataType", "in_", [int, str]), L("Value", "is_instance", dict, list), L("ValueLength", "equal_to", 2),
    L("ValueLength", "in_", [1, 2]), L("ValueLength", "less_than", 3), L("Value", "in_", ["x", "<v&>", 1]),
    L("Value", "allowed_keys", "a", "b", MARK, LONG1, LONG2), L("Value", "required_keys", "a", MARK, LONG2), L("Value", "keys_is_instance", str),
    L("Value", "required_keys", "b"),
    L("Value", "required_keys", 0, "a"), L("Value", "allowed_keys", 0, 1, "a", "b"),      # integer keys named by key conditions
    L("ValueLength", "equal_to", 0), L("Value", "in_", []), L("ValueLength", "in_", [0]),  # falsy arguments
]
DOCS = [
    None,
    {"description": ["plain text", "<b>bold</b> & \"q\" 'a' `code` end"], "examples": []},
    {"description": ["unbalanced ` tick <i>x</i>"], "examples": ["ex <u>`x`</u> & more", "`a` and `b`"]},
    {"description": [], "examples": ["only <example>"]},
]


def shapes(n):
    """All prefix-closed sets of <= n paths (as sorted tuples), each containing the empty path."""
    seen = {((),)}
    frontier = [((),)]
    out = [((),)]
    for _ in range(n - 1):
        nxt = []
        for s in frontier:
            for p in s:
                for a in range(len(ALPHA)):
                    q = p + (a,)
                    if q in s:
                        continue
                    t = tuple(sorted(s + (q,)))
                    if t not in seen:
                        seen.add(t)
                        nxt.append(t)
                        out.append(t)
        frontier = nxt
    return out


def and_combos(k):
    out = []
    for n in range(1, k + 1):
        for tup in itertools.permutations(range(len(MENU)), n):
            c = MENU[tup[0]]
            for i in tup[1:]:
                c = ("and", c, MENU[i])
            out.append(c)
    out.append(("or", MENU[10], MENU[0]))                  # required_keys not always applicable
    out.append(("and", ("or", MENU[10], MENU[9]), MENU[0]))
    out.append(("xor", MENU[10], MENU[12]))
    out.append(("and", MENU[0], ("and", MENU[10], MENU[9])))    # right-nested and
    return out


def cases(tier):
    out = []
    n = 3 if tier == "quick" else 4
    for s in shapes(n):
        for shift in range(3):
            rules = []
            for i, p in enumerate(s):
                parts = tuple(ALPHA[a] for a in p)
                cond = MENU[(i * 5 + shift * 3 + len(p)) % len(MENU)]
                if shift == 2 and i % 2:
                    cond = ("and", cond, MENU[(i + 9) % len(MENU)])
                rules.append(T.rule(P(parts), cond, (), DOCS[(i + shift) % len(DOCS)]))
            out.append(("schema", tuple(rules)))
    k = 2 if tier == "quick" else 3
    base = [((), 0), ((("prim", "a"),), 0), ((("prim", "a"), ("prim", MARK)), 2), ((("prim", "b"),), 1),
            ((("prim", 0),), 0), ((("prim", 0), ("prim", "a")), 2), ((("prim", "a"), ("prim", 0)), 3)]    # integer keys with rules of their own
    for c in and_combos(k):
        for where in (0, 1):
            rules = []
            for i, (parts, mi) in enumerate(base):
                rules.append(T.rule(P(parts), c if i == where else MENU[mi], (), DOCS[i % len(DOCS)]))
            out.append(("schema", tuple(rules)))
    # (c) deep chains: one rule per prefix of a path of up to 9 parts (every heading level up to 10 and beyond), string
    # / integer keys and bare map / list parts interleaved, doc blocks at every level
    chains = [
        [("prim", k) for k in ("a", "b", "c", "d", "e", "f", "g", "h", MARK)],
        [("prim", "a"), gen.BARE[1], ("prim", "b"), gen.BARE[0], ("prim", 0), ("prim", "c"), gen.BARE[1], ("prim", LONG1), ("prim", "z")],
        [gen.BARE[0], gen.BARE[0], ("prim", 1), ("prim", "x"), gen.BARE[1], gen.BARE[1], ("prim", "y"), ("prim", 2)],
    ]
    for ch in chains:
        for depth in ((7, 9) if tier == "quick" else range(5, 10)):
            rules = []
            for i in range(min(depth, len(ch)) + 1):
                nxt = ch[i] if i < len(ch) else None
                cond = MENU[1] if nxt == gen.BARE[1] or (nxt and nxt[0] == "prim" and isinstance(nxt[1], int)) else MENU[0]
                if i == min(depth, len(ch)):
                    cond = MENU[2]
                rules.append(T.rule(P(tuple(ch[:i])), cond, (), DOCS[i % len(DOCS)]))
            out.append(("schema", tuple(rules)))
    return out


_c = {}


def _cases(tier):
    if tier not in _c:
        _c[tier] = cases(tier)
    return _c[tier]


def prepare(tier):
    _cases(tier)


def units(tier):
    return gen.chunks(len(_cases(tier)), 30)


def run_unit(unit, tier):
    res = Result()
    cs = _cases(tier)
    for i in range(unit[0], unit[1]):
        st = cs[i]
        froms = [None] + [r[1][1] for r in st[1]]
        for fi, fp in enumerate(froms):
            check_case(res, st, fp, key=(i, fi))
    res.sample({"schema": cs[unit[0]], "from_path": None})
    return res


def replay(case):
    res = Result()
    fp = case["from_path"]
    check_case(res, case["schema"], tuple(tuple(x) if isinstance(x, list) else x for x in fp) if fp is not None else None,
               key=("replay",))
    return list(res.violations.values())


# --------------------------------------------------------------------------------- reference
def flat_ops(c):
    if c[0] in ("and", "or", "xor"):
        l1, o1 = flat_ops(c[1])
        l2, o2 = flat_ops(c[2])
        return l1 + l2, o1 + [c[0]] + o2
    return [c], []


def required_keys_of(cond):
    """keys that an always-applicable required_keys condition names / keys named by an always-applicable
    allowed_keys or required_keys condition (these get a node of their own)."""
    leaves, ops = flat_ops(cond)
    req, named = set(), set()
    if not ops or set(ops) == {"and"}:
        for l in leaves:
            if l[0] == "leaf" and l[2] == "required_keys":
                req.update(l[3])
                named.update(l[3])
            if l[0] == "leaf" and l[2] == "allowed_keys":
                named.update(l[3])
    return req, named


class Strict(HTMLParser):
    ALLOWED = {"div", "section", "span", "h1", "h2", "h3", "h4", "h5", "h6", "a", "p", "code"}

    def __init__(self):
        super().__init__(convert_charrefs=False)
        self.stack = []
        self.errors = []
        self.text = []
        self.attrs = []
        self.codes = 0

    def handle_starttag(self, tag, attrs):
        # (heading tags of any level: the statement asks for tags closed in order, not for a level limit)
        if tag not in self.ALLOWED and not (tag[0] == "h" and tag[1:].isdigit()):
            self.errors.append("unexpected tag <%s>" % tag)
        self.stack.append(tag)
        if tag == "code":
            self.codes += 1
        self.attrs.extend(v for _, v in attrs if v is not None)

    def handle_endtag(self, tag):
        if not self.stack or self.stack[-1] != tag:
            self.errors.append("</%s> closes %r" % (tag, self.stack[-1:] or None))
        else:
            self.stack.pop()

    def handle_startendtag(self, tag, attrs):
        self.errors.append("self-closing <%s/>" % tag)

    def handle_data(self, data):
        if "<" in data or ">" in data:
            self.errors.append("stray angle bracket in text %r" % data[:40])
        self.text.append(data)

    def handle_entityref(self, name):
        self.text.append(html.unescape("&%s;" % name))

    def handle_charref(self, name):
        self.text.append(html.unescape("&#%s;" % name))

    def handle_comment(self, data):
        self.errors.append("comment")

    def handle_decl(self, decl):
        self.errors.append("declaration")


RAW_MARKERS = [MARK, "<b>", "<i>", "<u>", "<example>", "<v&>", "& \"q\"", "& more"]


def flatten_nested(nodes):
    out = []
    for n in nodes:
        out.append(n)
        out.extend(flatten_nested(n.get("children", [])))
    return out


def check_case(res, st, from_parts, key):
    res.count("evaluations")
    res.state(*key)
    case = {"schema": st, "from_path": list(from_parts) if from_parts is not None else None}
    schema = T.build_schema(st)
    rules = list(schema.rules)
    terms = ref_sorted = sorted(st[1], key=lambda r: len(r[1][1]))
    # (from_path is given as the parts of the rule path, the form to_tree compares with)
    mk_from = lambda: None if from_parts is None else list(DataPath(*[T.build_part(p) for p in from_parts]).parts)
    from_path = mk_from()
    nfrom = 0 if from_parts is None else len(from_parts)
    res.count("transitions", 2)
    try:
        flat = schema.to_tree(nested=False, from_path=from_path)
        nested = schema.to_tree(nested=True, from_path=mk_from())
    except BaseException as e:
        res.violation("to_tree-raises:%s:%s" % (type(e).__name__, _where(e)), "to_tree(from_path=%r) raised %r for %s"
                      % (from_parts, e, T.show(st)), case, observed=repr(e), expected="a tree")
        return
    # ---- each rule under from_path exactly once, with its condition and doc
    under = [(r, t) for r, t in zip(rules, terms) if tuple(t[1][1][:nfrom]) == tuple(from_parts or ())]
    for r, t in under:
        hits = [n for n in flat if n.get("condition") is r.condition]
        if len(hits) != 1 or hits[0].get("doc") is not r.doc and hits[0].get("doc") != r.doc:
            res.violation("rule-node", "rule %s appears %d times in the tree (or without its doc)" % (T.show(t), len(hits)), case,
                          observed=len(hits), expected=1)
            return
    if len([n for n in flat if n.get("condition") is not None]) != len(under):
        res.violation("extra-rule-node", "the tree has nodes with conditions of rules outside the sub-tree", case)
        return
    # ---- parent precedes and is the path prefix
    for i, n in enumerate(flat):
        par = n.get("parent")
        if not isinstance(par, int) or par >= i or par < -1:
            res.violation("parent-order", "node %d has parent index %r" % (i, par), case, observed=par)
            return
        path = tuple(n.get("path", ()))
        if par == -1:
            if len(path) != (1 if nfrom else 0):
                res.violation("root-path", "top node has path %r" % (path,), case, observed=path)
                return
        else:
            ppath = tuple(flat[par].get("path", ()))
            if path[:-1] != ppath or len(path) != len(ppath) + 1:
                res.violation("parent-prefix", "node path %r, parent path %r" % (path, ppath), case, observed=(path, ppath))
                return
    # ---- nested form has the same nodes
    fn = flatten_nested(nested)
    a = sorted((repr(tuple(n.get("path", ()))), id(n.get("condition")) if n.get("condition") is not None else 0) for n in flat)
    rmap = {id(r.condition): i for i, r in enumerate(rules)}
    b = sorted((repr(tuple(n.get("path", ()))), id(n.get("condition")) if n.get("condition") is not None else 0) for n in fn)
    # (conditions belong to the same schema object in both calls, so identities are comparable)
    if a != b:
        res.violation("nested-differs", "nested and flat forms contain different nodes", case, observed=b, expected=a)
        return
    # ---- asking the same schema object again gives the same trees (H flavour: repeated calls)
    res.count("transitions", 3)
    try:
        flat2 = schema.to_tree(nested=False, from_path=mk_from())
        nested2 = schema.to_tree(nested=True, from_path=mk_from())
        nested3 = schema.to_tree(nested=True, from_path=mk_from())
    except BaseException as e:
        res.violation("to_tree-again-raises:%s" % type(e).__name__, "a repeated to_tree call raised %r" % (e,), case, observed=repr(e))
        return
    sig_ = lambda nodes: sorted((repr(tuple(n.get("path", ()))), id(n.get("condition")) if n.get("condition") is not None else 0,
                                 bool(n.get("required"))) for n in nodes)
    if sig_(flat2) != sig_(flat) or sig_(flatten_nested(nested2)) != sig_(fn) or sig_(flatten_nested(nested3)) != sig_(fn):
        res.violation("repeat-differs", "a repeated to_tree call on the same schema gives a different tree (%d / %d / %d nodes, "
                      "first call %d)" % (len(flat2), len(flatten_nested(nested2)), len(flatten_nested(nested3)), len(flat)), case,
                      observed=[len(flat2), len(flatten_nested(nested2)), len(flatten_nested(nested3))], expected=len(flat))
        return
    # ---- required flags
    by_path = {}
    for n in flat:
        by_path.setdefault(repr(tuple(n.get("path", ()))), []).append(n)
    for r, t in under:
        req, named = required_keys_of(t[2])
        node = [n for n in flat if n.get("condition") is r.condition][0]
        base = tuple(node.get("path", ()))
        for k in named:
            nodes = by_path.get(repr(base + (k,)), [])
            if len(nodes) != 1:
                res.violation("key-node", "key %r named by %s has %d nodes" % (k, T.show(t[2]), len(nodes)), case,
                              observed=len(nodes), expected=1)
                return
            flag = bool(nodes[0].get("required"))
            if flag is not (k in req):
                res.violation("required-flag", "key %r under %s: required=%r, but %s" % (
                    k, T.show(t[1]), nodes[0].get("required"),
                    "an always-applicable required_keys condition names it" if k in req else "no always-applicable required_keys names it"),
                    case, observed=nodes[0].get("required"), expected=(k in req))
                return
    # no other node is flagged required
    want_req = set()
    for r, t in under:
        node = [n for n in flat if n.get("condition") is r.condition][0]
        req, _ = required_keys_of(t[2])
        for k in req:
            want_req.add(repr(tuple(node.get("path", ())) + (k,)))
    for n in flat:
        if n.get("required") and repr(tuple(n.get("path", ()))) not in want_req:
            res.violation("required-flag-spurious", "node %r is flagged required" % (n.get("path"),), case)
            return
    # ---- HTML
    for anchor, start in ((None, 1), ("root", 1), (None, 5)):
        res.count("transitions")
        try:
            out = write_tree_html(nested, anchor_root=anchor, heading_start_level=start)
        except BaseException as e:
            res.violation("html-raises:%s" % type(e).__name__, "write_tree_html raised %r" % (e,), case, observed=repr(e))
            return
        p = Strict()
        try:
            p.feed(out)
            p.close()
        except BaseException as e:
            p.errors.append("parser: %r" % (e,))
        if p.errors or p.stack:
            res.violation("html-malformed", "HTML is not well-formed: %s; open at end: %r" % (p.errors[:3], p.stack[-3:]), case,
                          observed=out[:600])
            return
        # strict re-parse as XML (expat): catches what the lenient HTML parser forgives, e.g. an unescaped quote
        # character of a key inside a double-quoted attribute value
        try:
            import xml.etree.ElementTree as ET
            ET.fromstring("<root>" + out + "</root>")
        except ET.ParseError as e:
            pos = getattr(e, "position", (1, 0))[1] - 6
            res.violation("html-not-wellformed-xml", "the HTML does not survive a strict parse: %s" % (e,), case,
                          observed=out[max(0, pos - 100): pos + 60])
            return
        for m in RAW_MARKERS:
            if m in out:
                res.violation("html-unescaped", "schema text %r appears unescaped in the HTML" % (m,), case,
                              observed=out[max(0, out.find(m) - 80): out.find(m) + 80])
                return
        shown = "".join(p.text) + " " + " ".join(p.attrs)
        shown = html.unescape(shown)
        expect = []
        for n in fn:
            if n.get("type_info_in_parent") and not n.get("children"):
                continue
            path = n.get("path", ())
            if path and isinstance(path[-1], str):
                expect.append(path[-1])
            # (how a condition is summarised is the renderer's business: only that whatever is shown is escaped is judged)
            d = n.get("doc")
            if d:
                for para in d["description"] + d["examples"]:
                    expect.append(para.replace("`", "") if para.count("`") % 2 == 0 else None)
        for e_ in expect:
            if e_ is not None and e_ not in shown.replace("`", ""):
                # hidden sub-trees: write_tree_html skips childless nodes whose type is shown in the parent
                if not _hidden(fn, e_):
                    res.violation("html-omits-text", "schema text %r is not shown in the HTML" % (e_,), case, observed=shown[:400])
                    return
    res.count("validated")
    if len(flat) >= 2:
        res.count("nontrivial")
    res.outcome((len(flat), nfrom))


def _hidden(nodes, text):
    return False


def _where(e):
    tb = e.__traceback__
    last = None
    while tb is not None:
        if "/valida/" in tb.tb_frame.f_code.co_filename:
            last = tb.tb_frame.f_code.co_name
        tb = tb.tb_next
    return last or "?"
