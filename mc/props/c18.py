"""C18 -- add_schema adds re-rooted rules and leaves the added schema intact.

H-space: world = three target schemas S1, S2, S3 (S3 empty) and two source schemas T1, T2 (shared live objects);
transitions = Si.add_schema(Tj, R) over 6 roots; every history up to the depth bound, replayed
from scratch on fresh objects.  After every transition: sources keep their snapshot and
behaviour; the target's rule list is the reference list (previous rules + re-rooted rules of
Tj, stable shortest-path-first); every target validates like a schema built afresh from its
reference rule list; the target judges a document as before plus Tj's judgement of what lies
at R.
"""
import itertools

from mc import terms as T, ref, gen
from mc.enc import fresh
from mc.run import Result
from mc.snapshot import snap, vsnap

from valida.datapath import DataPath
from valida.schema import Schema

META = {
    "rule": "every history of <= depth transitions Si.add_schema(Tj, R) (3 targets, one of them empty, x 3 sources x 6 roots = 54 per state; at depth 2 also a composed target as the source, 18 more) "
            "on shared live schema objects built from a 10-rule pool (one source holds rules whose paths differ only in 1 / 1.0 or only in a part label); state = the reference rule lists of the two targets; "
            "executions are histories (each replayed from scratch), none merged; non-trivial = history of >= 2 additions "
            "(same source twice, two targets, or two roots)",
    "assumptions": ["'T's judgement of what lies at R' is evaluated for cast-free sources on every non-empty container "
                    "node R selects; sources with casts are compared through the reference rule list and through a schema "
                    "built afresh from it"],
    "bounds": {"quick": {"history_depth": 2}, "thorough": {"history_depth": 3}},
    "technique": "explicit-state exploration of all add_schema histories on shared live objects against a reference model",
}

L = T.leaf
P = T.path
M, Ls, MOL = gen.BARE
R0 = T.rule(P(()), L("ValueDataType", "equal_to", dict))
R1 = T.rule(P((("prim", "a"),)), L("Value", "equal_to", 1))
R2 = T.rule(P((("prim", "b"), Ls)), L("Value", "greater_than", 0))
R3 = T.rule(P((M,)), L("ValueDataType", "in_", [int, dict, list]))
R4 = T.rule(P((("prim", "a"), ("prim", "b"))), L("Value", "less_than", 3))
R5 = T.rule(P((("prim", "x"),)), L("ValueDataType", "equal_to", int), (("str", "int"),))
# a source whose rule paths differ only in the type of an equal-valued part (1: list index or mapping key; 1.0: mapping key
# only) or only in a part label
R6 = T.rule(P((("prim", 1),)), L("Value", "truthy"))
R7 = T.rule(P((("prim", 1.0),)), L("Value", "equal_to", "q"))
R8 = T.rule(P((("map", ("lit", "a"), None, "L1"),)), L("Value", "less_than", 9))
R9 = T.rule(P((("map", ("lit", "a"), None, "L2"),)), L("ValueDataType", "equal_to", int))
INIT = {"S1": (R0, R1), "S2": (R4,), "S3": (), "T1": (R1, R2), "T2": (R3, R5, R0), "T3": (R6, R7, R8, R9)}
SOURCES = ("T1", "T2", "T3")
TARGETS = ("S1", "S2", "S3")
ROOTS = [(), (("prim", "a"),), (("prim", "a"), ("prim", "b")), (("prim", 0),), (Ls,), (M,)]
MENU = [(s, t, r) for s in TARGETS for t in SOURCES for r in range(len(ROOTS))]
# nested composition: a target that has itself received a schema is added to another target (roots 1, 2, 5 only)
MENU_NESTED = [(s, t, r) for s in TARGETS for t in TARGETS if s != t for r in (1, 2, 5)]

DOCS = [
    {"a": 1, "b": [1, 0]}, {"a": {"a": 1, "b": [1, -1], "x": "3"}, "b": [2]}, {"a": {"b": {"a": 2, "b": [0]}}},
    [{"a": 1, "b": [0]}, {"a": 2}, 5, []], {"a": {"a": {"a": 1}}, "b": {"a": 2, "x": "z"}}, {"a": {"b": 5}, "x": "7"},
    {0: {"a": 2, "b": [1]}, "a": 1}, {"a": "s", "b": "t"}, {"a": {"b": [{"a": 3}, {"a": 1}]}}, {"x": "1", "a": {"x": "q"}},
    {"a": {"a": 1, "b": {"a": 1, "b": [0, 0]}}, "b": [{"a": 2}]}, [[{"a": 1}], {"b": [0]}],
    # a list / a mapping with key 1 / a mapping with key 1.0 at the roots
    # several nodes at a fan-out root, an uncastable string before castable ones
    {"a": {"x": "q"}, "b": {"x": "5"}, "c": {"x": "7", "a": 1}}, [{"x": "q"}, {"x": "5", "a": 1}, 3, {"x": "8"}],
    [0, 0, "q"], {"a": [5, 0, 7], 1: "q"}, {"a": {1: 0, "a": "x"}, 1.0: 0}, {"a": {"b": ["q", "q"], "a": 12}}, [[1, 0], {"a": 10, 1: "q"}],
]


def reroot(rule_t, root_parts):
    _, p, c, cast, doc = rule_t
    return T.rule(P(tuple(root_parts) + p[1]), c, cast, doc)


def ref_add(rules, source_rules, root_parts):
    new = list(rules) + [reroot(r, root_parts) for r in source_rules]
    return tuple(ref.sorted_rules(new))


def observe(schema, doc):
    try:
        vd = schema.validate(fresh(doc))
        return ("ok", vd.is_valid, vd.num_failures, vd.num_rules_tested, vsnap(vd.cast_data),
                tuple(sorted((tuple(f.path) for rt in vd.rule_tests for f in rt.failures), key=repr)))
    except BaseException as e:
        return ("raises", type(e).__name__)


class World:
    def __init__(self):
        self.obj = {k: T.build_schema(("schema", v)) for k, v in INIT.items()}
        # two schemas built from ONE list object of rules: what one of them receives later is not the other's business
        shared_list = [T.build_rule(r) for r in INIT["S2"]]
        self.obj["S2"] = Schema(shared_list)
        self.twin = Schema(shared_list)
        self.model = dict(INIT)
        self.src_snap = {k: snap(self.obj[k]) for k in SOURCES}
        self.src_obs = {k: [observe(self.obj[k], d) for d in DOCS] for k in SOURCES}


def units(tier):
    # (a target used as a *source* can also come first: what is added to it later must not reach where it was added)
    return [["H", i] for i in range(len(MENU) + len(MENU_NESTED))]


def run_unit(unit, tier):
    res = Result()
    depth = 2 if tier == "quick" else 3
    first = unit[1]
    stack = [[first]]
    while stack:
        hist = stack.pop()
        res.count("evaluations")
        ok = run_history(res, hist)
        if ok and len(hist) < depth:
            for nxt in range(len(MENU)):
                stack.append(hist + [nxt])
            if len(hist) == 1 or tier == "thorough":
                for nxt in range(len(MENU_NESTED)):
                    stack.append(hist + [len(MENU) + nxt])
        if ok and len(hist) >= 2:
            res.count("nontrivial")
    res.sample({"history": [list((MENU + MENU_NESTED)[first])], "menu_index": [first]})
    return res


def replay(case):
    res = Result()
    run_history(res, case["history"])
    return list(res.violations.values())


def run_history(res, hist):
    """Replay the whole history on fresh objects; check all invariants after every transition."""
    ALLM = MENU + MENU_NESTED
    case = {"history": list(hist), "steps": [list(ALLM[i]) for i in hist]}
    try:
        w = World()
    except BaseException as e:
        res.violation("world-build:%s" % type(e).__name__, "building the schemas raised %r" % (e,), case, observed=repr(e))
        return False
    for n, mi in enumerate(hist):
        s, t, ri = ALLM[mi]
        root_parts = ROOTS[ri]
        last = n == len(hist) - 1
        res.count("transitions")
        before_obs = [observe(w.obj[s], d) for d in DOCS] if last else None
        try:
            w.obj[s].add_schema(w.obj[t], DataPath(*[T.build_part(p) for p in root_parts]))
        except BaseException as e:
            res.violation("add-raises:%s" % type(e).__name__, "%s.add_schema(%s, %s) raised %r" % (s, t, T.show(P(root_parts)), e),
                          case, observed=repr(e))
            return False
        w.model[s] = ref_add(w.model[s], w.model[t], root_parts)
        if not last:
            continue   # (the prefix was checked when it was itself the history)
        res.states.add(hash(repr(tuple(w.model[k] for k in TARGETS))))
        # (1) sources intact (a composed target used as source must keep the rules it had)
        if t in TARGETS:
            got_t = w.obj[t].rules
            want_t = [T.build_rule(r) for r in w.model[t]]
            if len(got_t) != len(want_t) or any(not (a.path.parts == b.path.parts and a.condition == b.condition and a.cast == b.cast)
                                                for a, b in zip(got_t, want_t)):
                res.violation("source-changed:composed", "after %s.add_schema(%s, ..) the (composed) source %s changed" % (s, t, t), case,
                              observed=[repr(r) for r in got_t], expected=[T.show(r) for r in w.model[t]])
                return False
        for k in SOURCES:
            if snap(w.obj[k]) != w.src_snap[k]:
                res.violation("source-changed:%s" % ("same" if k == t else "other"),
                              "after %s.add_schema(%s, %s) the source schema %s is no longer as it was: rules now %r"
                              % (s, t, T.show(P(root_parts)), k, w.obj[k].rules), case, observed=repr(w.obj[k].rules),
                              expected=[T.show(r) for r in INIT[k]])
                return False
            res.count("transitions", len(DOCS))
            if [observe(w.obj[k], d) for d in DOCS] != w.src_obs[k]:
                res.violation("source-behaviour", "source schema %s validates differently after being added" % k, case)
                return False
        if len(w.twin.rules) != len(INIT["S2"]) or any(not (a == T.build_rule(b)) for a, b in zip(w.twin.rules, INIT["S2"])):
            res.violation("twin-changed", "a schema built from the same list object of rules as S2 changed when S2 (or another schema) "
                          "received rules: %r" % (w.twin.rules,), case, observed=[repr(r) for r in w.twin.rules],
                          expected=[T.show(r) for r in INIT["S2"]])
            return False
        # (2) every schema's rule list is the reference list
        for k in TARGETS:
            want = [T.build_rule(r) for r in w.model[k]]
            got = w.obj[k].rules
            # compared as (path parts, condition, cast) triples: a re-rooted path is assembled from part
            # objects and is therefore never "concrete", which the statement does not speak about
            if len(got) != len(want) or any(not (a.path.parts == b.path.parts and a.condition == b.condition
                                                 and a.cast == b.cast) for a, b in zip(got, want)):
                res.violation("rules:%s" % ("target" if k == s else "other-target"),
                              "after the history %r the rules of %s are not its previous rules plus the re-rooted rules of the "
                              "added schema (shortest path first)" % (case["steps"], k), case, observed=[repr(r) for r in got],
                              expected=[T.show(r) for r in w.model[k]])
                return False
            # (3) behaves like a schema built afresh from the reference list
            fresh_schema = T.build_schema(("schema", w.model[k]))
            for d in DOCS:
                res.count("transitions", 2)
                a, b = observe(w.obj[k], d), observe(fresh_schema, d)
                if a != b:
                    res.violation("behaviour:%s" % ("target" if k == s else "other-target"),
                                  "%s validates %r differently from a schema built afresh from its reference rule list" % (k, d),
                                  case, observed=a, expected=b)
                    return False
        # (3b) ... and like the reference model of that rule list: verdicts, failing paths, cast data; the caller's document
        # is left as it was (an oracle that does not run the code under test, so that casts are judged too)
        for k in TARGETS:
            for d in DOCS:
                want = ref.schema_validate(("schema", w.model[k]), d)
                if not all(t["exact"] for t in want["tests"]):
                    continue
                dd = fresh(d)
                res.count("transitions")
                try:
                    vd = w.obj[k].validate(dd)
                    got = (vd.is_valid, vd.num_failures, vd.num_rules_tested, vsnap(vd.cast_data),
                           tuple(sorted((tuple(f.path) for rt in vd.rule_tests for f in rt.failures), key=repr)))
                except BaseException as e:
                    got = ("raises", type(e).__name__)
                exp = (want["valid"], want["num_failures"], want["num_tested"], vsnap(want["cast_data"]),
                       tuple(sorted((cp for t in want["tests"] for cp, _ in t["failures"]), key=repr)))
                if got != exp or vsnap(dd) != vsnap(d):
                    res.violation("reference:%s" % ("target" if k == s else "other-target"),
                                  "%s validates %r differently from the reference model of its rule list (or changes the document)" % (k, d),
                                  case, observed=(got, dd), expected=(exp, d))
                    return False
        # (4) S judges a document as before plus T's judgement of what lies at R (cast-free sources)
        if t not in TARGETS and not any(r[3] for r in INIT[t]) and not any(r[3] for r in w.model[s]):
            src = T.build_schema(("schema", INIT[t]))
            for d, before in zip(DOCS, before_obs):
                if before[0] != "ok":
                    continue
                extra = []
                for cp, node in ref.walk(P(root_parts), d):
                    if isinstance(node, (list, dict)) and node:
                        o = observe(src, node)
                        if o[0] == "ok":
                            extra += [cp + fp for fp in o[5]]
                want_paths = tuple(sorted(list(before[5]) + extra, key=repr))
                after = observe(w.obj[s], d)
                res.count("transitions", 2)
                if after[0] != "ok" or after[5] != want_paths or after[1] is not (not want_paths):
                    res.violation("judgement", "after %s.add_schema(%s, %s), %s does not judge %r as before plus %s's judgement "
                                  "of what lies at the root" % (s, t, T.show(P(root_parts)), s, d, t), case,
                                  observed=after, expected=want_paths)
                    return False
        res.count("validated")
        res.outcome((s, t, ri))
    return True
