"""C17 -- a data-path argument means the value at that path in the validated document.

T-space: rules whose condition carries path-valued arguments in every argument position
(positional, keyword, var-positional, var-keyword, inside list / mapping arguments), the path
being concrete / non-concrete / absent / with datum and multiplicity modifiers, built by the
API and by '{path..: parts}' specs, x documents.  Relational oracle: same verdict as the same
rule with the argument replaced by the reference-resolved literal.  Escaped '\\path' literals
are compared literally.
"""
import itertools

from mc import terms as T, ref, gen, specs as S
from mc.alphabet import V
from mc.enc import fresh
from mc.run import Result
from mc.props.c03 import shape

from valida.rules import Rule
from valida.conditions import ConditionLike

META = {
    "rule": "every (argument position x path argument x rule path) rule, API-built and spec-built, x every document; "
            "a case is one (rule, document) pair compared with the literal-argument rule; non-trivial = the path argument "
            "resolves without error and the rule was tested (its own path exists); distinct by construction; plus 6 path arguments differing only in the type "
            "of an equal-valued part (1 / 1.0 / True, 0 / 0.0 / False) x 21 positions, all loaded in one pristine process, in both orders; plus every escaped / "
            "unescaped spelling of 10 literal mappings with 'path' among their keys in every inspected position",
    "assumptions": ["documents on which resolving the path argument is itself an error by C04 (`single` with several "
                    "matches, datum modifier undefined on a selected node) are executed, counted and not judged",
                    "the literal rule is judged by the implementation itself (relational oracle): leaf meanings are C01's business"],
    "bounds": {"quick": {"documents": "~190", "positions": 21, "path arguments": 20},
               "thorough": {"documents": "~190 + F-type two-level", "positions": 21, "path arguments": 20}},
}

L = T.leaf
P = T.path
M, Ls, MOL = gen.BARE
PARGS = [
    P((("prim", "b"),)), P((("prim", "b"), ("prim", 0))), P((("prim", "zz"),)), P((("prim", "m"), ("prim", "x"))),
    P((M,)), P((("prim", "lst"), Ls)), P((("prim", "lst"), ("list", None, gen.V_EQ1, None)), None, "first"),
    P((("prim", "lst"), Ls), None, "last"), P((("prim", "lst"), ("list", ("lit", 0), None, None)), None, "single"),
    P((("prim", "b"),), "length"), P((("prim", "m"),), "map_keys"), P((("prim", "lst"), Ls), "dtype", "all", "md"),
    P((("prim", "zz"), Ls)), P(()), P((("prim", "b"),), "dtype"),
    P((("prim", "jobs"), Ls, ("prim", "cores")), None, "first"), P((("prim", "jobs"), Ls, ("prim", "cores")), None, "last"),
    P((M, ("prim", "x")), "length", "first"),
    P((("prim", "tbl"), Ls, Ls)), P((("prim", "tbl"), Ls, Ls), None, "last"),      # a fan-out over several lists whose items all match
]


def positions(pa):
    a = ("$path", pa)
    return [
        ("one:equal_to", L("Value", "equal_to", a)), ("one:in_", L("Value", "in_", a)),
        ("one:less_than", L("Value", "less_than", a)), ("one:keys_contain", L("Value", "keys_contain", a)),
        ("one:not_equal_to", L("Value", "not_equal_to", a)),
        ("kw:in_range.lower", L("Value", "in_range", lower=a, upper=5)), ("pos:in_range.upper", L("Value", "in_range", 0, a)),
        ("kw:in_range.upper", L("Value", "in_range", lower=0, upper=a)), ("varkw:items_contain.second", L("Value", "items_contain", x=1, y=a)),
        ("kw:equal_to_approx", L("Value", "equal_to_approx", value=a)),
        ("varpos:keys_contain_any_of", L("Value", "keys_contain_any_of", a, "zz")),
        ("varpos:allowed_keys", L("Value", "allowed_keys", "x", a)),
        ("varkw:items_contain", L("Value", "items_contain", x=a)),
        ("in-list:in_", L("Value", "in_", [a, 5])), ("in-list:equal_to", L("Value", "equal_to", [1, a])),
        ("in-mapping:equal_to", L("Value", "equal_to", {"x": a})),
        ("length:equal_to", L("ValueLength", "equal_to", a)),
        ("dtype:equal_to", L("ValueDataType", "equal_to", a)), ("dtype:in_", L("ValueDataType", "in_", [a, str])),
        ("tree", ("and", L("Value", "greater_than_or_equal_to", a), ("or", L("Value", "equal_to", a), L("Value", "truthy")))),
        ("tree-xor", ("xor", L("Value", "equal_to", a), ("xor", L("Value", "truthy"), L("Value", "less_than_or_equal_to", a)))),
    ]


RULE_PATHS = [P((("prim", "a"),)), P((M,)), P((("prim", "lst"), Ls)), P(())]

# path arguments whose last part is equal in value but different in type (1 == 1.0 == True): an int or bool part
# addresses a list index or a mapping key, a float part a mapping key only.  All of them are loaded in ONE process
# (both orders: two units), on documents with a list / a mapping at that place
PARGS_CONF = [P((("prim", "b"), ("prim", x))) for x in (1, 1.0, True, 0, 0.0, False)]
CONF_DOCS = [{"a": a, "b": b} for b in ([7, 8, 9], {1: 8, 0: 7}, {1.0: 8, False: 7}, [[1], [2]]) for a in (8, 7, None, [2])]


def documents(tier):
    vals = [0, 1, 2, 1.5, True, None, "", "a", "x", [], [1], [1, 2], {}, {"x": 1}, {"x": [1]}, {"a": 1, "x": 1}]
    out = []
    for x in vals:
        out.append({"a": x, "b": 1, "lst": [1, 1, 2], "m": {"x": 1}})
        out.append({"a": x, "b": x})
        out.append({"a": x, "b": [x, 0], "lst": [x]})
        out.append({"a": x, "m": {"x": x, "a": 1}, "lst": [0, 1, x]})
        out.append({"a": x, "lst": []})
        out.append({"a": {"x": x}, "b": {"x": x}, "m": {"x": x}, "lst": [x, x]})
        out.append({"a": [1, x], "b": x, "lst": [[1, x], x]})
    out += [{"a": 1}, {"b": 1}, {"lst": [1]}, [1, 2], {"a": ["b"], "b": "b"}, {"a": {"path": ["b"]}, "b": 1},
            {"a": 2, "b": 2, "lst": [2, 1, 1], "m": {"a": 1, "x": 2}}, {"a": 3, "b": [1, 2, 3], "lst": [1], "m": {"x": 1, "y": 2, "z": 3}}]
    # mapping keys in non-sorted order / of mixed types (for map_keys path arguments)
    out += [{"a": ["x", "a"], "m": {"x": 1, "a": 1}}, {"a": [1, "two"], "m": {1: 0, "two": 0}, "b": ["x", "a"]},
            {"a": ["a", "x"], "m": {"x": 1, "a": 1}}]
    # intermediate matches that lack the remaining parts, before / after ones that have them
    for x in (1, 4, "a"):
        out.append({"a": x, "jobs": [{"name": "a"}, {"name": "b", "cores": 4}, {"cores": 1}, {"name": "c"}], "m": {"x": [x]}})
        out.append({"a": x, "jobs": [{"cores": x}, {}], "b": {"y": 1}, "m": {"x": [1, 2]}, "n": {"x": "abc"}})
    # a table (list of lists) for two-level fan-out arguments
    for x in (1, 4, [1, 2, 3, 4], 9):
        out.append({"a": x, "b": 4, "tbl": [[1, 2], [3, 4]], "lst": [4, 1]})
        out.append({"a": x, "tbl": [[x], [], [4, x]], "m": {"x": 4}})
    # adjacent documents that compare == but differ in type (1 == True == 1.0): a re-used rule must not confuse them
    for seq in ([1, True, 1.0, 1], [0, False, 0.0], [[1], [True], [1.0]], [{"x": 1}, {"x": True}]):
        for x in seq:
            out.append({"a": x, "b": x})
        for x in seq:
            out.append({"a": 1, "b": x, "lst": [x, x], "m": {"x": x}})
    if tier == "thorough":
        out += gen.docs_type2()
    return out


def cases(tier):
    out = []
    for pi, pa in enumerate(PARGS):
        for pos, cond in positions(pa):
            for rp in RULE_PATHS:
                out.append((pos, pa, T.rule(rp, cond)))
    return out


_c = {}


def _cases(tier):
    if tier not in _c:
        _c[tier] = (cases(tier), documents(tier))
    return _c[tier]


def prepare(tier):
    _cases(tier)


def units(tier):
    return gen.chunks(len(_cases(tier)[0]), 16) + [["esc"], ["conf", 0], ["conf", 1]]


def run_unit(unit, tier):
    res = Result()
    if unit[0] == "esc":
        check_escaped(res)
        return res
    if unit[0] == "conf":
        pargs = PARGS_CONF if unit[1] == 0 else PARGS_CONF[::-1]
        for pi, pa in enumerate(pargs):
            for pos, cond in positions(pa):
                shared = {}
                for di, doc in enumerate(CONF_DOCS):
                    check_case(res, pos, pa, T.rule(RULE_PATHS[0], cond), doc, key=("conf", unit[1], pi, pos, di), shared=shared,
                               history=CONF_DOCS[:di])
        return res
    cs, docs = _cases(tier)
    for i in range(unit[0], unit[1]):
        pos, pa, rt = cs[i]
        # H flavour: ONE rule object (API-built) and one spec-built rule are reused for all documents in turn,
        # each verdict compared with a freshly built literal rule
        shared = {}
        for di, doc in enumerate(docs):
            check_case(res, pos, pa, rt, doc, key=(i, di), shared=shared, history=docs[:di])
    res.sample({"position": cs[unit[0]][0], "path_arg": cs[unit[0]][1], "rule": cs[unit[0]][2], "doc": docs[0]})
    return res


def replay(case):
    res = Result()
    if case.get("escaped"):
        check_escaped(res)
    else:
        shared = {}
        for d in case.get("history", []):      # re-create the history of the shared rule objects
            check_case(Result(), case["position"], case["path_arg"], case["rule"], d, key=("replay-h",), shared=shared, history=[])
        check_case(res, case["position"], case["path_arg"], case["rule"], case["doc"], key=("replay",), shared=shared,
                   history=case.get("history", []))
    return list(res.violations.values())


def subst(t, lit):
    """The condition term with every path argument replaced by the literal."""
    def sub(a):
        if T.is_path_arg(a):
            return lit
        if isinstance(a, list):
            return [sub(i) for i in a]
        if isinstance(a, dict):
            return {k: sub(v) for k, v in a.items()}
        return a
    if t[0] == "leaf":
        return ("leaf", t[1], t[2], tuple(sub(a) for a in t[3]), tuple((k, sub(v)) for k, v in t[4]))
    if t[0] == "null":
        return t
    return (t[0], subst(t[1], lit), subst(t[2], lit))


def observe(rule, doc):
    from mc.snapshot import vsnap
    d = fresh(doc)
    before = vsnap(d)
    try:
        rt = rule.test(d)
        out = ("ok", rt.is_valid, rt.tested, tuple(tuple(f.path) for f in rt.failures))
    except BaseException as e:
        out = ("raises", type(e).__name__)
    if vsnap(d) != before:      # (C08's side condition, where it is cheap: resolving an argument must not edit the document)
        out = out + ("DOCUMENT CHANGED", repr(d))
    return out


def check_case(res, pos, pa, rt, doc, key, shared=None, history=()):
    res.count("evaluations")
    res.state(*key)
    shared = {} if shared is None else shared
    case = {"position": pos, "path_arg": pa, "rule": rt, "doc": doc}
    if "api" not in shared:
        shared["api"] = T.build_rule(rt)
    try:
        lit = ref.select(pa, doc)
    except (ref.DatumUndefined, ref.MultipleMatches) as e:
        res.count("path_argument_undefined_not_judged")
        # executed all the same (must not corrupt anything); outcome not judged
        observe(shared["api"], doc)
        res.count("transitions")
        return
    lit_rule = T.rule(rt[1], subst(rt[2], fresh(lit)))
    try:
        want = observe(T.build_rule(lit_rule), doc)
    except BaseException as e:
        res.note("literal rule unbuildable")
        return
    sig = "%s|%s|%s" % (pos, shape(pa) + ("." + str(pa[2]) if pa[2] else "") + ("." + str(pa[3]) if pa[3] else ""), shape(rt[1]))
    # API-built
    res.count("transitions", 2)
    got = observe(shared["api"], doc)
    if got != want:
        fresh_got = observe(T.build_rule(rt), doc)
        if fresh_got == want:   # only the re-used rule object is wrong: history-dependent
            case["history"] = list(history)
            sig = "reused-rule:" + sig
        res.violation("api:%s" % sig, "Rule with data-path argument %s (%s) on %r differs from the same rule with the "
                      "resolved literal %r" % (T.show(pa), pos, doc, lit), case, observed=got, expected=want)
        return
    # spec-built
    spec = S.rule_spec(rt)
    res.count("transitions")
    try:
        if "spec" not in shared:
            shared["spec"] = Rule.from_spec(spec)
        r2 = shared["spec"]
    except BaseException as e:
        res.violation("spec-parse:%s:%s" % (type(e).__name__, pos), "rule spec %r was rejected: %r" % (spec, e), case, observed=repr(e))
        return
    got2 = observe(r2, doc)
    if got2 != want:
        if observe(Rule.from_spec(S.rule_spec(rt)), doc) == want:
            case["history"] = list(history)
        res.violation("spec:%s" % sig, "spec-built rule with '{path..}' argument (%s) on %r differs from the rule with the "
                      "resolved literal %r" % (pos, doc, lit), case, observed=got2, expected=want)
        return
    # the same spec held in containers of sub-types of dict / list (what a round-trip YAML loader or
    # json.loads(object_pairs_hook=OrderedDict) hands out)
    res.count("transitions")
    try:
        if "spec_sub" not in shared:
            shared["spec_sub"] = Rule.from_spec(_sub_containers(S.rule_spec(rt)))
        r3 = shared["spec_sub"]
    except BaseException as e:
        res.violation("spec-parse:subtype-containers:%s:%s" % (type(e).__name__, pos), "rule spec %r in OrderedDict / list-subtype containers "
                      "was rejected: %r" % (spec, e), case, observed=repr(e))
        return
    got3 = observe(r3, doc)
    if got3 != want:
        res.violation("spec:subtype-containers:%s" % sig, "spec-built rule (spec held in OrderedDict / list-subtype containers) with '{path..}' "
                      "argument (%s) on %r differs from the rule with the resolved literal %r" % (pos, doc, lit), case, observed=got3, expected=want)
        return
    res.count("validated")
    if want[0] == "ok" and want[2]:
        res.count("nontrivial")
    res.outcome(want[:2])


class _SubList(list):
    pass


def _sub_containers(x):
    import collections
    if isinstance(x, dict):
        return collections.OrderedDict((k, _sub_containers(v)) for k, v in x.items())
    if isinstance(x, list):
        return _SubList(_sub_containers(i) for i in x)
    if isinstance(x, tuple):
        return tuple(_sub_containers(i) for i in x)
    return x


def check_escaped(res):
    """A literal mapping argument written with the escaped key is compared literally."""
    combos = []
    for esc, plain in (("\\path", "path"), ("\\path.length", "path.length"), ("\\Path", "Path")):
        combos.append(({"value.equal_to": {esc: ["b"]}}, L("Value", "equal_to", {plain: ["b"]}), {plain: ["b"]}))
        combos.append(({"value.in": [{esc: ["b"]}, 1]}, L("Value", "in_", [{plain: ["b"]}, 1]), {plain: ["b"]}))
        combos.append(({"value.items_contain": {"q": {esc: ["b"]}}}, L("Value", "items_contain", q={plain: ["b"]}), {"q": {plain: ["b"]}}))
    # multi-key literal mappings, the escaped key(s) first / in the middle / last, every spelling, every position
    for term, spec in S.litmap_cases():
        lit = [a for a in list(term[3]) + [v for _, v in term[4]] if isinstance(a, (dict, list))][0]
        hit = lit if term[2] in ("equal_to", "not_equal_to", "equal_to_approx") else ([i for i in lit if isinstance(i, dict)][0] if isinstance(lit, list) else {"q": lit, "p": 1})
        combos.append((spec, term, hit))
    for spec, term, hit in combos:
        res.count("evaluations")
        res.states.add(hash(repr(spec)))
        case = {"escaped": True, "spec": spec}
        try:
            shared_spec = fresh(spec)
            c = ConditionLike.from_spec(shared_spec)
            c_again = ConditionLike.from_spec(shared_spec)      # the same structure object parsed a second time
        except BaseException as e:
            res.violation("escaped:parse:%s" % type(e).__name__, "escaped spec %r was rejected: %r" % (spec, e), case, observed=repr(e))
            continue
        built = T.build_cond(term)
        if not (c_again == built):
            res.violation("escaped:second-parse", "escaped spec %r parsed a second time gives %r, not the literal %r"
                          % (spec, c_again, built), case, observed=repr(c_again), expected=repr(built))
            continue
        if not (c == built):
            res.violation("escaped:not-literal", "escaped spec %r parsed to %r, not the literal %r" % (spec, c, built), case,
                          observed=repr(c), expected=repr(built))
            continue
        for doc in ({"a": hit, "b": 1}, {"a": 1, "b": 1}, {"a": ["b"], "b": ["b"]}, {"a": {"q": ["b"]}, "b": ["b"]}):
            res.count("transitions", 2)
            a = observe(Rule(["a"], c), doc)
            b = observe(Rule(["a"], built), doc)
            if a != b:
                res.violation("escaped:behaviour", "escaped literal %r is not compared literally on %r" % (spec, doc), case,
                              observed=a, expected=b)
                break
        else:
            res.count("validated")
            res.count("nontrivial")
