"""C12 -- serialised data paths rebuild to an equivalent path, or serialisation refuses.

T-space: every path of the C03 alphabet (plus labelled parts), built through the API and through
part specs; serialised, pushed through JSON text, rebuilt; behaviour compared on every document.
"""
import json

from mc import terms as T, ref, gen, specs as S
from mc.enc import fresh
from mc.run import Result
from mc.props.c03 import same_node, same_value, shape

from valida.datapath import DataPath

META = {
    "rule": "every path (length bound) over the 42-part alphabet + 6 labelled parts + 7 parts with path-like literal / data-path / bool-type arguments, and every comparison callable in every condition position of a part (map key / value, list index / value, map-or-list key / index / value: ~290 parts), built by the API and by part "
            "specs; a case is one (path, construction) pair serialised with to_part_specs and to_json_like, rebuilt "
            "and compared on every document of the family; non-trivial = serialisation returned (did not refuse) "
            "and the rebuilt path was compared on all documents",
    "assumptions": ["refusing (raising) is allowed by the statement; refusals are counted separately so that "
                    "'refuses everything' would show as distinct_nontrivial = 0",
                    "JSON-compatible = json.dumps succeeds (a tuple argument is accepted here, unlike in C11)"],
    "bounds": {"quick": {"paths": "length<=1 over 48 parts + length 2 over 12 parts", "documents": "F-struct(3) + F-type"},
               "thorough": {"paths": "length<=2 over 48 parts", "documents": "F-struct(4) + F-type"}},
}

LABELLED = [
    ("map", ("lit", "a"), None, "L"), ("list", None, None, "L"), ("mol", None, ("lit", 0), None, "L"),
    ("map", None, gen.V_DICT, "lab"), ("mol", ("lit", 1), ("lit", 1), None, "L"), ("map", None, None, "M"),
]
PATHLIKE_PARTS = [
    ("list", None, T.leaf("Value", "equal_to", {"Path": ["a", "b"]}), None),
    ("map", None, T.leaf("Value", "in_", [{"path": ["b"]}, 1]), None),
    ("mol", None, None, T.leaf("Value", "not_equal_to", {"path.length": ["a"]}), None),
    ("map", T.leaf("Key", "equal_to", ("$path", T.path((("prim", "k"),)))), None, None),
    ("list", None, T.leaf("ValueDataType", "equal_to", bool), None),
    ("mol", None, None, T.leaf("Value", "is_instance", bool, float), None),
    ("map", T.leaf("KeyDataType", "in_", [bool, str]), T.leaf("ValueDataType", "not_equal_to", bool), None),
]
PARTS = gen.PARTS + LABELLED + PATHLIKE_PARTS
PATHLIKE_DOCS = [
    [{"Path": ["a", "b"]}, 1, {"path": ["b"]}, {"path.length": ["a"]}, ["a", "b"], 2],
    {"a": {"Path": ["a", "b"]}, "b": {"path": ["b"]}, "c": 1, "d": {"path.length": ["a"]}, "k": "a"},
    [True, 1, 0, False, "x", 2.5, 1.0], {"a": True, True: 1, "b": 0, False: False, 2: 2.5},
]


def path_list(tier):
    if tier == "quick":
        return list(gen.paths(1, PARTS)) + [p for p in gen.paths(2, gen.PARTS12X + LABELLED[:2] + PATHLIKE_PARTS[:2] + PATHLIKE_PARTS[4:5]) if len(p[1]) == 2]
    return list(gen.paths(2, PARTS))


def family(tier):
    return (gen.docs_struct(3) if tier == "quick" else gen.docs_struct(4)) + gen.docs_type2() + gen.docs_deep() + PATHLIKE_DOCS


_pl = {}


def _paths(tier):
    if tier not in _pl:
        _pl[tier] = path_list(tier)
    return _pl[tier]


def prepare(tier):
    _paths(tier)
    family(tier)


# a map part whose lone key-kind condition is NOT a plain key equality (length / type of the key), with an argument of the
# types a primitive part can have: serialised next to another explicit part
KEYPREP_PARTS = [("map", T.leaf("KeyLength", "equal_to", 2.0), None, None), ("map", T.leaf("KeyLength", "equal_to", "ab"), None, None),
                 ("map", T.leaf("KeyLength", "equal_to", 1), None, None), ("mol", T.leaf("KeyLength", "equal_to", 1), None, None, None),
                 ("map", T.leaf("Key", "not_equal_to", "a"), None, None), ("map", T.leaf("Key", "equal_to", 1.5), None, "L")]
APPROX_PARTS = [("list", None, T.leaf("Value", "equal_to_approx", 1.0, 0.5), None),
                ("map", None, T.leaf("Value", "equal_to_approx", value=2, tolerance=0.25), None),
                ("mol", None, None, T.leaf("Value", "in_range", 0, 3), None)]


# type arguments that have no name in specs: such parts can only be built through the API, and serialising them
# has to refuse
UNNAMED_TYPE_PARTS = [("list", None, T.leaf("Value", "is_instance", tuple), None),
                      ("map", None, T.leaf("Value", "is_instance", int, tuple), None),
                      ("mol", None, None, T.leaf("Value", "keys_is_instance", tuple), None),
                      ("map", T.leaf("KeyDataType", "is_instance", type), None, None),
                      ("list", None, T.leaf("ValueDataType", "equal_to", tuple), None),
                      ("map", None, T.leaf("ValueDataType", "in_", [int, tuple]), None),
                      ("list", None, T.leaf("ValueDataType", "in_range", lower=tuple, upper=2), None)]


def units(tier):
    return gen.chunks(len(_paths(tier)), 6) + [["NOISE"], ["CONF", 0], ["CONF", 1], ["MOD"]] + [["CALL", lo, hi] for lo, hi in gen.chunks(len(gen.callable_parts()) + len(gen.repeated_callable_parts()), 12)]


def run_unit(unit, tier):
    res = Result()
    if unit[0] == "NOISE":
        # after malformed / unusual specs have been fed to the parsers, serialisation round trips must still hold
        from mc.noise import make_noise
        res.count("transitions", make_noise())
        ps = [T.path((p,)) for p in APPROX_PARTS + PARTS[::3]] + [T.path((("prim", "a"), p)) for p in APPROX_PARTS]
        docs = family("quick")
        kdocs = docs + [{"ab": 1, "a": 2, 2.0: 3, "xy": [1]}, [{"ab": 1, 1.5: 2}, {"a": {"cd": 1}}]]
        for pi, p in enumerate(KEYPREP_PARTS):
            for how in ("api", "spec"):
                check_case(res, T.path((p,)), how, kdocs, key=("KEYPREP", pi, how))
                check_case(res, T.path((p, gen.BARE[1])), how, kdocs, key=("KEYPREP", pi, how, "then-list"))
                check_case(res, T.path((gen.BARE[1], p)), how, kdocs, key=("KEYPREP", pi, how, "after-list"))
                check_case(res, T.path((("prim", "a"), p, gen.MAPS[3])), how, kdocs, key=("KEYPREP", pi, how, "3"))
        for pi, p in enumerate(UNNAMED_TYPE_PARTS):
            check_case(res, T.path((p,)), "api", docs, key=("UNNAMED", pi))
            check_case(res, T.path((("prim", "a"), p)), "api", docs, key=("UNNAMED", pi, "a"))
        for pi, p in enumerate(ps):
            for how in ("api", "spec"):
                check_case(res, p, how, docs, key=("NOISE", pi, how), noise=True)
        return res
    if unit[0] == "MOD":
        # the path spec with its datum / multiplicity modifiers (DataPath.to_spec -> JSON -> DataPath.from_spec)
        bases = [(), (("prim", "a"),), (("prim", "a"), ("prim", 1)), (gen.BARE[0],), (("prim", "a"), gen.BARE[1]), (gen.MAPS[5], gen.BARE[2]),
                 (gen.LISTS[4],), (LABELLED[0], gen.MOLS[6]), (("prim", 1.0), gen.BARE[0])]
        docs = family("quick")
        i = 0
        for parts in bases:
            for datum in T.DATUMS:
                for multi in T.MULTIS:
                    for order in (("dm", "md") if datum and multi else ("dm",)):
                        check_modified(res, T.path(parts, datum, multi, order), docs, key=("MOD", i))
                        i += 1
        return res
    if unit[0] == "CONF":
        # paths that differ only in the type of an equal-valued primitive part (1 / 1.0 / True / '1', 0 / 0.0 / False), all
        # serialised and rebuilt in ONE process, in both orders
        from mc.props.c10 import PRIM_PATHS
        pool = [T.path(tuple(("prim", x) for x in pp)) for pp in PRIM_PATHS]
        pool += [T.path((("map", ("lit", x), None, None),)) for x in (1, 1.0, True, "1")]
        pool += [T.path((("prim", "a"), ("list", ("lit", x), None, None))) for x in (1, True, 0, False)]
        if unit[1]:
            pool = pool[::-1]
        docs = family("quick")
        for pi, pt in enumerate(pool):
            for how in ("api", "spec"):
                check_case(res, pt, how, docs, key=("CONF", unit[1], pi, how))
        return res
    if unit[0] == "CALL":
        # every comparison callable in every condition position of a part
        cps = gen.callable_parts() + gen.repeated_callable_parts()    # (+ combinations repeating one callable with other arguments)
        docs = family("quick")
        for pi in range(unit[1], unit[2]):
            for how in ("api", "spec"):
                check_case(res, T.path((cps[pi],)), how, docs, key=("CALL", pi, how))
                if tier == "thorough":
                    check_case(res, T.path((("prim", "a"), cps[pi])), how, docs, key=("CALL", pi, how, "a"))
        return res
    ps = _paths(tier)
    docs = family(tier)
    for pi in range(unit[0], unit[1]):
        for how in ("api", "spec"):
            check_case(res, ps[pi], how, docs, key=(pi, how))
    res.sample({"path": ps[unit[0]], "how": "spec"})
    return res


def replay(case):
    res = Result()
    docs = [case["doc"]] if "doc" in case else family("quick")
    if case.get("how") == "modified":
        check_modified(res, case["path"], docs, key=("replay",))
        return list(res.violations.values())
    if case.get("noise"):
        from mc.noise import make_noise
        make_noise()
    check_case(res, case["path"], case["how"], docs, key=("replay",), noise=bool(case.get("noise")))
    return list(res.violations.values())


def _get(p, d):
    try:
        return ("ok", p.get_data(d))
    except BaseException as e:
        return ("raises", type(e).__name__)


def check_modified(res, pt, docs, key):
    res.count("evaluations")
    res.state(*key)
    case = {"path": pt, "how": "modified"}
    try:
        p = T.build_path(pt)
    except BaseException:
        res.count("modifier_refused_on_this_path")     # (multiplicity modifiers on concrete paths: C04)
        return
    res.count("transitions", 2)
    try:
        spec = p.to_spec()
        text = json.dumps(spec)
    except (TypeError, ValueError) as e:
        if isinstance(e, TypeError) and "JSON" in str(e):
            res.violation("not-json:to_spec", "%s.to_spec() = %r is not JSON-compatible" % (T.show(pt), spec), case, observed=repr(spec))
        else:
            res.count("refused")
        return
    except BaseException:
        res.count("refused")
        return
    try:
        q = DataPath.from_spec(json.loads(text))
    except BaseException as e:
        res.violation("rebuild:to_spec:%s" % type(e).__name__, "DataPath.from_spec(%s) raised %r" % (text, e), case, observed=repr(e),
                      expected=T.show(pt))
        return
    if not (q == p and p == q):
        res.violation("unequal:to_spec", "%s serialises to %s which rebuilds to the unequal %r" % (T.show(pt), text, q), case,
                      observed=repr(q), expected=repr(p))
        return
    for doc in docs:
        res.count("transitions", 2)
        a, b = _get(p, fresh(doc)), _get(q, fresh(doc))
        if vsnap_(a) != vsnap_(b):
            res.violation("selects-differently:to_spec", "%s serialises to %s, which rebuilds to a path returning something else "
                          "from %r" % (T.show(pt), text, doc), dict(case, doc=doc), observed=b, expected=a)
            return
    res.count("validated")
    res.count("nontrivial")


def vsnap_(x):
    from mc.snapshot import vsnap
    return vsnap(x)


def as_pairs(out, concrete):
    if concrete:
        return [] if out is None else [out]
    return out


def same_pairs(a, b):
    if len(a) != len(b):
        return False
    for (v1, p1), (v2, p2) in zip(a, b):
        if p1 != p2 or not (same_node(v1, v2) or (not p1 and same_value(v1, v2))):
            return False
    return True


def check_case(res, pt, how, docs, key, noise=False):
    res.count("evaluations")
    res.state(*key)
    case = {"path": pt, "how": how}
    if noise:
        case["noise"] = True
    try:
        if how == "api":
            p = T.build_path(pt)
        else:
            p = DataPath.from_part_specs(*[S.part_spec(x) for x in pt[1]])
    except BaseException as e:
        res.violation("build:%s:%s" % (how, type(e).__name__), "building %s (%s) raised %r" % (T.show(pt), how, e), case,
                      observed=repr(e))
        return
    res.count("transitions", 2)
    try:
        specs = p.to_part_specs()
        js = p.to_json_like()
    except BaseException as e:
        res.count("refused")
        res.outcome(("refused", type(e).__name__))
        return
    try:
        text = json.dumps(specs)
        json.dumps(js)
    except (TypeError, ValueError) as e:
        res.violation("not-json:%s" % shape(pt), "%s.to_part_specs() = %r is not JSON-compatible" % (T.show(pt), specs), case,
                      observed=repr(specs))
        return
    if js != specs:
        res.violation("to_json_like-differs", "to_json_like() and to_part_specs() differ", case, observed=js, expected=specs)
        return
    res.count("transitions")
    try:
        q = DataPath.from_part_specs(*json.loads(text))
    except BaseException as e:
        res.violation("rebuild:%s:%s" % (type(e).__name__, shape(pt)), "from_part_specs(*%r) raised %r" % (specs, e), case,
                      observed=repr(e), expected=T.show(pt))
        return
    if how == "spec" and not (q == p and p == q):
        res.violation("unequal:%s" % shape(pt), "%s built from specs serialises to %r which rebuilds to an unequal path"
                      % (T.show(pt), specs), case, observed=repr(q), expected=repr(p))
        return
    for doc in docs:
        d = fresh(doc)
        res.count("transitions", 2)
        try:
            a = as_pairs(p.get_data(d, return_paths=True), p.is_concrete)
            b = as_pairs(q.get_data(d, return_paths=True), q.is_concrete)
        except BaseException as e:
            res.violation("get-raises:%s" % type(e).__name__, "get_data raised %r" % (e,), dict(case, doc=doc), observed=repr(e))
            return
        if not same_pairs(a, b):
            res.violation("selects-differently:%s" % shape(pt), "%s serialises to %r, which rebuilds to a path selecting "
                          "differently from %r" % (T.show(pt), specs, doc), dict(case, doc=doc), observed=b, expected=a)
            return
    res.count("validated")
    res.count("nontrivial")
    res.outcome(("returned", all(not isinstance(s, dict) for s in specs)))
