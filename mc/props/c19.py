"""C19 -- malformed specs are rejected with spec errors, never internal ones.

Deviation-bounded T-space: seeds = a covering set of well-formed condition / part / path / rule
/ schema specs.  Deviation 1a: inject one *definite* error of a listed class at every
applicable position (must be rejected, with an allowed exception type).  Deviation 1b: every
single structural mutation (must be accepted, or rejected with an allowed type).  Deviation 2
(thorough): every pair of structural mutations on a seed subset.
"""
import itertools
import json

from mc import terms as T, gen, specs as S
from mc.run import Result
from mc.props import c09, c10, c16

from valida import errors as E
from valida.conditions import ConditionLike
from valida.datapath import DataPath, ContainerValue
from valida.rules import Rule
from valida.schema import Schema

META = {
    "rule": "seeds x deviations: 1a = one definite error (unknown datum kind / pre-processor / callable incl. every "
            "dir() name of the condition class / type name / path suffix incl. every dir(DataPath) name / part type / "
            "part argument / cast type; wrong arity or argument shape (incl. a well-formed data-path spec where a list / keyword mapping is required); two keys; missing rule field) at every "
            "applicable position -> must be rejected; 1b = every single structural mutation (12 replacement values at "
            "every node, key deletion, element deletion / duplication, stray key, list wrap / unwrap) -> accepted or "
            "rejected with an allowed type; 2 = all pairs of mutations on a seed subset; a case is one mutated spec "
            "through its entry point; non-trivial = the mutated spec reached the parser and was rejected (the error "
            "path was exercised)",
    "assumptions": ["allowed: the four Malformed* errors, TypeError, ValueError, and KeyError whose argument is the "
                    "missing mandatory field ('path', 'condition', and 'rules' for a YAML schema document)",
                    "YAML syntax errors never reach valida and are not generated"],
    "bounds": {"quick": {"deviations": "1 (classes 1a and 1b)"}, "thorough": {"deviations": "1 on all seeds; 2 (all pairs of mutations) on a 40-seed subset"}},
    "technique": "deviation-bounded exhaustive enumeration (0, 1, 2 mutations of a well-formed spec) on the real parsers",
}

ALLOWED = (E.MalformedConditionLikeSpec, E.MalformedContainerItemSpec, E.MalformedDataPathSpec, E.MalformedRuleSpec,
           TypeError, ValueError)
FIELDS = ("path", "condition", "rules")

ENTRY = {
    "cond": ("ConditionLike.from_spec", lambda s: ConditionLike.from_spec(s)),
    "part": ("ContainerValue.from_spec", lambda s: ContainerValue.from_spec(s)),
    "path": ("DataPath.from_spec", lambda s: DataPath.from_spec(s)),
    "rule": ("Rule.from_spec", lambda s: Rule.from_spec(s)),
    "yaml": ("Schema.from_yaml", lambda s: Schema.from_yaml(json.dumps(s))),
}

VALUES = [None, 0, 1, True, "", "a", "path", [], {}, [None], {"a": 1}, {1: 2}]


def where(e):
    tb = e.__traceback__
    last = None
    while tb is not None:
        if "/valida/" in tb.tb_frame.f_code.co_filename:
            last = tb.tb_frame.f_code.co_name
        tb = tb.tb_next
    return last or "?"


def classify(kind, spec):
    """-> ('accepted', None) | ('rejected', exc) | ('internal', exc)"""
    name, fn = ENTRY[kind]
    try:
        fn(spec)
        return "accepted", None
    except ALLOWED as e:
        return "rejected", e
    except KeyError as e:
        if e.args and e.args[0] in FIELDS:
            return "rejected", e
        return "internal", e
    except BaseException as e:
        return "internal", e


# ------------------------------------------------------------------------------------- seeds
def seeds(tier):
    out = []
    # conditions: one per (class, callable, argument shape)
    for cls in T.CLASSES:
        for call in T.CALLABLES[cls]:
            type_names = T.PREP[cls] == "dtype" or call in ("is_instance", "keys_is_instance")
            ts = [t for t in c09.leaf_terms(cls, call, "quick") if not c09.dtype_str_arg(t)]
            if not ts:
                continue
            t = ts[min(1, len(ts) - 1)]
            vals = S.value_spellings(t, type_names)
            key = "%s.%s" % (T.SPEC_LABEL[cls], call)
            out.append(("cond", {key: vals[0]}, (cls, call)))
            if T.SIG[call][0] == "multi":
                out.append(("cond", {key: vals[2]}, (cls, call)))
    out.append(("cond", {"and": [{"value.lt": 3}, {"or": [{"value.in": [1, {"path": ["a"]}]}, {"value.dtype.eq": "int"}]}]}, None))
    out.append(("cond", {"xor": [{"key.eq": "a"}, {}]}, None))
    out.append(("cond", {"value.in": [{"path": ["a"]}, 2]}, ("Value", "in_")))
    out.append(("cond", {"value.in_range": {"lower": 0, "upper": {"path.first": [{"type": "map_value"}, "hi"]}}}, ("Value", "in_range")))
    out.append(("cond", {"value.equal_to": {"path": ["a", 0]}}, ("Value", "equal_to")))
    out.append(("cond", {"value.items_contain": {"a": {"path.length": ["b", {"type": "list_value"}]}}}, ("Value", "items_contain")))
    # parts, paths, rules, schemas
    for p in gen.PARTS + c10.LABELLED:
        if p[0] != "prim":
            for sp in c10.part_spellings(p)[:2]:
                out.append(("part", sp, None))
    for p in list(gen.paths(2, gen.PARTS12))[::7]:
        if p[1]:
            out.append(("path", S.path_spec(T.path(p[1], "length", None)), None))
            out.append(("path", S.path_spec(T.path(p[1], None, None), "short"), None))
    out.append(("path", S.path_spec(T.path((gen.BARE[0], ("prim", "a")), "map_keys", "first", "md")), None))
    rs = c16.rule_specs()
    for sp in rs[::11]:
        out.append(("rule", sp, None))
    out.append(("yaml", {"rules": [_jsonable(rs[3]), _jsonable(rs[40])]}, None))
    out.append(("yaml", {"rules": [_jsonable(rs[100])]}, None))
    return out


def _jsonable(x):
    return json.loads(json.dumps(x, default=lambda t: S.TYPE_NAME.get(t, str(t))))


# ----------------------------------------------------------------------- 1a: definite errors
def documented(cls_name):
    names = set(T.CALLABLES[cls_name]) | set(T.ALIASES) | {"in"}
    return {n.lower() for n in names}


def definite_errors(kind, spec, info):
    """-> list of (error class, mutated spec)"""
    out = []
    if kind == "cond" and info is not None:
        cls, call = info
        (key, val), = spec.items()
        toks = key.split(".")
        # unknown datum kind
        for bad in ("valu", "item", "", "values", "path"):
            out.append(("unknown-datum-kind", {".".join([bad] + toks[1:]): val}))
        # unknown / inapplicable pre-processor
        for bad in ("size", "lengthh", "", "filter", "js_like_label", "callable", "__class__"):
            out.append(("unknown-pre-processor", {".".join([toks[0], bad, toks[-1]]): val}))
        if T.KIND[cls] == "index":
            out.append(("inapplicable-pre-processor", {"index.length.%s" % toks[-1]: val}))
            out.append(("inapplicable-pre-processor", {"index.dtype.%s" % toks[-1]: val}))
        if len(toks) == 3:
            out.append(("too-many-tokens", {".".join(toks[:2] + ["length", toks[-1]]): val}))
        out.append(("too-few-tokens", {toks[0]: val}))
        # unknown callable: every attribute name of the class that is not a documented callable
        real = T.CLASSES[cls]
        for name in dir(real):
            if name.lower() not in documented(cls):
                out.append(("unknown-callable", {".".join(toks[:-1] + [name]): val}))
                out.append(("unknown-callable", {".".join(toks[:-1] + [name]): None}))
        for junk in ("equals", "lessthan", "", "eq_", "not", "keys"):
            out.append(("unknown-callable", {".".join(toks[:-1] + [junk]): val}))
        if cls not in ("Value", "Key"):
            for mc_ in T.MAPC:
                out.append(("map-callable-not-available", {".".join(toks[:-1] + [mc_]): ["a"]}))
        # unknown type name
        if T.PREP[cls] == "dtype" and isinstance(val, (str, type)):
            for bad in ("integer", "strr", "", "None", "type"):
                out.append(("unknown-type-name", {key: bad}))
                out.append(("unknown-type-name", {key: [bad]}))
        if call in ("is_instance", "keys_is_instance"):
            for bad in (3, 1.5, None, True, ["int"], {"int": 1}):
                out.append(("unknown-type-name", {key: ["str", bad]}))
                out.append(("unknown-type-name", {key: [bad]}))
            for bad in ("integer", "strr", ""):
                out.append(("unknown-type-name", {key: [bad]}))
                out.append(("unknown-type-name", {key: ["int", bad]}))
        # arity / argument shape
        sig, names = T.SIG[call]
        if sig == "multi":
            n = len(names)
            out.append(("scalar-for-multi-argument", {key: 1}))
            out.append(("scalar-for-multi-argument", {key: "a"}))
            if call != "equal_to_approx":
                out.append(("too-few-positional", {key: [1] * (n - 1)}))
                out.append(("too-few-positional", {key: []}))
            out.append(("too-many-positional", {key: [1] * (n + 1)}))
            good = dict(zip(names, [1, 2] if call != "keys_contain_N_of" else [1, ["a"]]))
            out.append(("unknown-keyword", {key: dict(good, zzz=1)}))
            out.append(("missing-keyword", {key: {names[0]: 1, "zzz": 2}}))
            for m in ({"path": ["a", "b"]}, {"path.all": ["a", {"type": "list_value"}]}, {"path": []}):
                out.append(("path-spec-for-multi-argument", {key: m}))
        elif sig == "varpos":
            out.append(("scalar-for-var-positional", {key: 1}))
            out.append(("scalar-for-var-positional", {key: "int"}))
            out.append(("mapping-for-var-positional", {key: {"a": 1}}))
            out.append(("none-for-var-positional", {key: None}))
            # a mapping that happens to be a well-formed data-path spec (or an escaped literal) is still not a list
            for m in ({"path": ["a", "b"]}, {"path.length": ["a"]}, {"path": []}, {"\\path": ["a"]}, {"path.first": [{"type": "list_value"}]}):
                out.append(("path-spec-for-var-positional", {key: m}))
        elif sig == "varkw":
            out.append(("list-for-var-keyword", {key: ["a", 1]}))
            out.append(("scalar-for-var-keyword", {key: 1}))
            for m in ({"path": ["a", "b"]}, {"path.map_values": ["a"]}, {"path": []}):
                out.append(("path-spec-for-var-keyword", {key: m}))
        # two keys where one is required
        out.append(("two-keys", {key: val, ("value.truthy" if key != "value.truthy" else "value.falsy"): None}))
        out.append(("two-keys", {key: val, "and": []}))
    if kind in ("cond", "rule"):
        # a data path spec nested in a condition argument (recognised by its valid 'path..' key) with a malformed part
        for pos in positions(spec):
            node = get_at(spec, pos)
            if (pos and isinstance(node, dict) and len(node) == 1 and isinstance(next(iter(node)), str)
                    and next(iter(node)).split(".")[0] == "path" and isinstance(next(iter(node.values())), list)
                    and any(p[0] == "k" and isinstance(p[1], str) and p[1].split(".")[0] in ("value", "key", "index", "condition")
                            for p in pos)):
                k = next(iter(node))
                for cls_, badpart in (("unknown-part-type", {"type": "bogus_value"}),
                                      ("unknown-part-argument", {"type": "map_value", "foo": 1}),
                                      ("inapplicable-part-argument", {"type": "map_value", "index": {"index.eq": 0}}),
                                      ("wrong-kind-condition", {"type": "list_value", "value": {"key.eq": "a"}})):
                    out.append(("nested-path:" + cls_, rebuild(spec, pos, lambda x, k=k, b=badpart: {k: list(c16.copy_spec(x[k])) + [b]})))
                out.append(("nested-path:non-list-parts", rebuild(spec, pos, lambda x, k=k: {k: 5})))
    if kind == "cond" and info is None:
        (key, val), = spec.items()
        for bad in (1, "a", {"value.lt": 1}, None and 0):
            if bad is not None:
                out.append(("non-list-for-binary-op", {key: bad}))
        out.append(("two-keys", dict(spec, **{"or": []})))
    if kind == "path":
        (key, val), = spec.items()
        for name in dir(DataPath):
            if name.lower() not in ("dtype", "length", "map_keys", "map_values", "first", "last", "single", "all", "any",
                                    "type", "len"):
                out.append(("unknown-path-suffix", {"path." + name: val}))
        for junk in ("size", "", "firsts", "path"):
            out.append(("unknown-path-suffix", {"path." + junk: val}))
        out.append(("too-many-suffixes", {"path.length.first.all": val}))
        out.append(("two-keys", {key: val, "path.first": val}))
        out.append(("wrong-path-key", {"paths": val}))
        out.append(("wrong-path-key", {"datapath.length": val}))
    if kind == "part":
        for bad in ("set_value", "map", "", "MapValue", 1, None and 0):
            if bad is not None:
                out.append(("unknown-part-type", dict(spec, type=bad)))
        for stray in ("foo", "keys", "values", "Key", "index_", "conditions", "type_"):
            out.append(("unknown-part-argument", dict(spec, **{stray: 1})))
        if spec.get("type") == "map_value":
            out.append(("inapplicable-part-argument", dict(spec, index={"index.eq": 0})))
            out.append(("inapplicable-part-argument", dict(spec, **{"index.eq": 0})))
        if spec.get("type") == "list_value":
            out.append(("inapplicable-part-argument", dict(spec, key={"key.eq": "a"})))
            out.append(("inapplicable-part-argument", dict(spec, **{"key.eq": "a"})))
        out.append(("wrong-kind-condition", dict(spec, value={"key.eq": "a"})))
    if kind == "rule":
        for f in ("path", "condition"):
            sp = dict(spec)
            del sp[f]
            out.append(("missing-rule-field", sp))
        for bad in ({"int": "str"}, {"str": "float"}, {"str": "list"}, {"strr": "int"}, {"str": "integer"}, {"bool": "str"},
                    {"str": "str"}, {"": ""}):
            out.append(("unknown-cast", dict(spec, cast=bad)))
    return out


# --------------------------------------------------------------- 1b: structural mutations
def positions(x, path=()):
    """All node positions of a spec structure."""
    yield path
    if isinstance(x, dict):
        for k, v in x.items():
            yield from positions(v, path + (("k", k),))
    elif isinstance(x, (list, tuple)):
        for i, v in enumerate(x):
            yield from positions(v, path + (("i", i),))


def get_at(x, path):
    for kind, k in path:
        x = x[k]
    return x


def rebuild(x, path, fn):
    """Copy of x with fn applied to the node at path (fn returns the replacement, or DELETE)."""
    if not path:
        return fn(x)
    (kind, k), rest = path[0], path[1:]
    if kind == "k":
        out = {}
        for kk, v in x.items():
            if kk == k:
                nv = rebuild(v, rest, fn)
                if nv is not DELETE:
                    out[kk] = nv
            else:
                out[kk] = c16.copy_spec(v)
        return out
    out = []
    for i, v in enumerate(x):
        if i == k:
            nv = rebuild(v, rest, fn)
            if nv is DELETE:
                continue
            if isinstance(nv, _Dup):
                out.extend([nv.v, c16.copy_spec(nv.v)])
                continue
            out.append(nv)
        else:
            out.append(c16.copy_spec(v))
    return out if isinstance(x, list) else tuple(out)


DELETE = object()


class _Dup:
    def __init__(self, v):
        self.v = v


def mutations(spec):
    """-> list of (operator name, position, mutated spec)"""
    out = []
    for pos in positions(spec):
        node = get_at(spec, pos)
        for vi, v in enumerate(VALUES):
            out.append(("replace[%d]" % vi, pos, rebuild(spec, pos, lambda _x, v=v: c16.copy_spec(v))))
        out.append(("wrap-in-list", pos, rebuild(spec, pos, lambda x: [c16.copy_spec(x)])))
        if isinstance(node, list) and len(node) == 1:
            out.append(("unwrap-list", pos, rebuild(spec, pos, lambda x: c16.copy_spec(x[0]))))
        if isinstance(node, dict):
            out.append(("stray-key", pos, rebuild(spec, pos, lambda x: dict(c16.copy_spec(x), zzz=1))))
            out.append(("stray-nonstr-key", pos, rebuild(spec, pos, lambda x: {**c16.copy_spec(x), 1: 1})))
        if pos:
            out.append(("delete", pos, rebuild(spec, pos, lambda x: DELETE)))
            if pos[-1][0] == "i":
                out.append(("duplicate", pos, rebuild(spec, pos, lambda x: _Dup(c16.copy_spec(x)))))
    return out


# ------------------------------------------------------------------------------------ driver
_c = {}


def _seeds(tier):
    if tier not in _c:
        _c[tier] = seeds(tier)
    return _c[tier]


def prepare(tier):
    _seeds(tier)


def units(tier):
    n = len(_seeds(tier))
    u = [["1", i, min(i + 4, n)] for i in range(0, n, 4)]
    if tier == "thorough":
        sub = list(range(0, n, max(1, n // 40)))[:40]
        for i in sub:
            m = len(mutations(_seeds(tier)[i][1]))
            u += [["2", i, lo, hi] for lo, hi in gen.chunks(m, 40)]
    return u


def run_unit(unit, tier):
    res = Result()
    sd = _seeds(tier)
    if unit[0] == "1":
        for si in range(unit[1], unit[2]):
            kind, spec, info = sd[si]
            check_seed(res, kind, spec, si)
            for cls_, bad in definite_errors(kind, spec, info):
                check_definite(res, kind, cls_, bad, seed=spec)
            for op, pos, m in mutations(spec):
                check_mutant(res, kind, m, [op, list(pos)], seed=spec)
        kind, spec, info = sd[unit[1]]
        res.sample({"kind": kind, "spec": spec, "deviation": "seed"})
    else:
        kind, spec, info = sd[unit[1]]
        ms = mutations(spec)
        for op1, pos1, m1 in ms[unit[2]:unit[3]]:
            for op2, pos2, m2 in mutations(m1):
                check_mutant(res, kind, m2, [op1, list(pos1), op2, list(pos2)], seed=spec)
    return res


def replay(case):
    res = Result()
    if case["deviation"] == "seed":
        check_seed(res, case["kind"], case["spec"], "replay")
    elif case["deviation"] == "definite":
        check_definite(res, case["kind"], case["class"], case["spec"], seed=None)
    else:
        check_mutant(res, case["kind"], case["spec"], case.get("ops"), seed=None)
    return list(res.violations.values())


def check_seed(res, kind, spec, si):
    res.count("evaluations")
    res.count("transitions")
    out, e = classify(kind, c16.copy_spec(spec))
    if out != "accepted":
        res.violation("seed-rejected:%s" % kind, "well-formed %s spec %r is not accepted: %r" % (kind, spec, e),
                      {"kind": kind, "spec": spec, "deviation": "seed"}, observed=repr(e), expected="accepted")
    res.states.add(hash(("seed", kind, repr(spec))))


def check_definite(res, kind, cls_, bad, seed):
    res.count("evaluations")
    res.count("transitions")
    res.states.add(hash(("1a", kind, repr(bad))))
    case = {"kind": kind, "spec": bad, "deviation": "definite", "class": cls_}
    out, e = classify(kind, c16.copy_spec(bad))
    res.outcome((cls_, out, type(e).__name__ if e else None))
    if out == "accepted":
        res.violation("accepted:%s:%s" % (kind, cls_), "malformed %s spec (%s) %r was accepted" % (kind, cls_, bad), case,
                      observed="accepted", expected="rejected with a spec error")
    elif out == "internal":
        res.violation("internal:%s:%s:%s:%s" % (kind, cls_, type(e).__name__, where(e)),
                      "malformed %s spec (%s) %r failed with an internal error: %r" % (kind, cls_, bad, e), case,
                      observed=repr(e), expected="rejected with a spec error")
    else:
        res.count("validated")
        res.count("nontrivial")


def check_mutant(res, kind, m, ops, seed):
    res.count("evaluations")
    res.count("transitions")
    res.states.add(hash(("1b", kind, repr(m))))
    case = {"kind": kind, "spec": m, "deviation": "mutation", "ops": ops}
    if kind == "yaml":
        try:
            json.dumps(m)
        except (TypeError, ValueError):
            return
    out, e = classify(kind, c16.copy_spec(m))
    res.outcome((out, type(e).__name__ if e else None))
    if out == "internal":
        res.violation("internal:%s:%s:%s" % (kind, type(e).__name__, where(e)),
                      "mutated %s spec %r failed with an internal error: %r" % (kind, m, e), case, observed=repr(e),
                      expected="accepted, or rejected with a spec error")
    else:
        res.count("validated")
        if out == "rejected":
            res.count("nontrivial")
