"""C03 -- path resolution selects exactly the nodes a part-by-part walk reaches.

T-space: all paths up to a length bound over the part alphabet of mc.gen x all documents of
F-struct(n) and the F-type shapes; five entry points; oracle = reference walker.
"""
from mc import terms as T, ref, gen
from mc.enc import fresh
from mc.run import Result
from mc.snapshot import vsnap

from valida.data import Data
from valida.datapath import DataPath

META = {
    "rule": "(plus H: 19 confusable paths -- 1 / 1.0 / True / '1' as primitives and explicit parts -- each as the first path resolved in a pristine process followed by all 19) every path (length bound) over the part alphabet x every document of the family; a case is "
            "one (path, document) pair executed through 5 entry points; non-trivial = the reference walk "
            "selects at least one node; distinct by construction (path index x document index)",
    "assumptions": ["conditions inside parts are from the well-typed alphabet of mc.gen (their leaf meanings "
                    "are C01's business)"],
    "bounds": {
        "quick": {"paths": "length<=1 over 42 parts, length 2 over a 20-part sub-alphabet, length 3 over a 7-part sub-alphabet, length 4 over {'a', 0, map, list, map-or-list}",
                  "documents": "F-struct(4) + F-type flat/two-level + F-deep (asymmetric 3-4 level documents)"},
        "thorough": {"paths": "length<=2 over 42 parts; length 3 over a 12-part and a 7-part sub-alphabet; length 4 over the 7-part sub-alphabet; length 5 and 6 over {'a', map, list, map-or-list} on F-deep",
                     "documents": "F-struct(4) + F-type + F-deep for length<=2 and for length 3 over 12 parts; F-struct(5) + F-deep for length 3 over 7 parts; F-deep + F-type for length 4"},
    },
}


def path_list(tier):
    if tier == "quick":
        ps = list(gen.paths(1, gen.PARTS)) + [p for p in gen.paths(2, gen.PARTS20) if len(p[1]) == 2]
        return [(p, "s4t") for p in ps] + [(p, "deep") for p in gen.paths(3, gen.PARTS7) if len(p[1]) == 3] + \
            [(p, "deeponly") for p in gen.paths(4, LONG5) if len(p[1]) == 4]
    ps = [(p, "s4t") for p in gen.paths(2, gen.PARTS)]
    # length 3: the 7-part sub-alphabet on all of F-struct(5); the 12-part one on F-struct(4) + F-type + F-deep
    ps += [(p, "s5") for p in gen.paths(3, gen.PARTS7) if len(p[1]) == 3]
    ps += [(p, "s4t") for p in gen.paths(3, gen.PARTS12) if len(p[1]) == 3]
    ps += [(p, "deep") for p in gen.paths(4, gen.PARTS7) if len(p[1]) == 4]
    ps += [(p, "deeponly") for p in gen.paths(6, LONG5[:1] + LONG5[2:]) if len(p[1]) in (5, 6)]
    return ps


# long paths (4 parts at the quick tier, 5 and 6 at the thorough one): two keys and the three bare parts
LONG5 = [gen.PRIMS[0], gen.PRIMS[3]] + gen.BARE


def family(name):
    if name == "deeponly":
        return gen.docs_deep()
    if name == "s4t":
        return gen.docs_struct(4) + gen.docs_type2() + gen.docs_deep()
    if name == "deep":
        return gen.docs_deep() + gen.docs_type2()
    return gen.docs_struct(5) + gen.docs_deep()


_pl = {}


def _paths(tier):
    if tier not in _pl:
        _pl[tier] = path_list(tier)
    return _pl[tier]


def prepare(tier):
    for _, fam in _paths(tier):
        family(fam)


# H-space for hidden resolver state: paths that differ only by 1 / 1.0 / True / '1' (as primitives and as explicit
# parts); each unit is a pristine process in which path i is resolved first (all entry points), then every path
CONFUSABLE = [T.path(p) for p in (
    (("prim", 1),), (("prim", 1.0),), (("prim", True),), (("prim", "1"),), (("prim", 0),), (("prim", 0.0),), (("prim", False),),
    (("map", ("lit", 1), None, None),), (("map", ("lit", "1"), None, None),), (("map", ("lit", 1.0), None, None),),
    (("map", ("lit", True), None, None),), (("list", ("lit", 1), None, None),), (("mol", ("lit", "1"), ("lit", 1), None, None),),
    (("prim", "a"), ("prim", 1)), (("prim", "a"), ("prim", 1.0)), (("prim", "a"), ("prim", "1")), (("prim", "a"), ("prim", True)),
    (("map", ("lit", "a"), None, None), ("prim", 1)), (("prim", "a"), ("map", ("lit", 1), None, None)),
)]
CONF_DOCS = [["p", "q", "r"], {1: "int", "1": "str", "a": ["x", "y"], 0: "zero"}, {"a": {1: "i", "1": "s", 1.5: "f"}, True: "t"},
             {1.0: "float", "a": {"1": "s"}}, [["m", "n"], {"1": 5, 1: 6}]]


def units(tier):
    return gen.chunks(len(_paths(tier)), 3 if tier == "quick" else 6) + [["H", i] for i in range(len(CONFUSABLE))]


def run_unit(unit, tier):
    res = Result()
    if unit[0] == "H":
        order = [unit[1]] + list(range(len(CONFUSABLE)))
        for n, j in enumerate(order):
            for di, doc in enumerate(CONF_DOCS):
                check_case(res, CONFUSABLE[j], doc, key=("H", unit[1], n, di), history=[CONFUSABLE[k] for k in order[:n]])
        res.sample({"path": CONFUSABLE[unit[1]], "doc": CONF_DOCS[0], "history": []})
        return res
    ps = _paths(tier)
    for pi in range(unit[0], unit[1]):
        p, fam = ps[pi]
        docs = family(fam)
        live = Live(p)
        for di, doc in enumerate(docs):
            check_case(res, p, doc, key=(pi, di))
            live.step(res, doc)
    res.sample({"path": ps[unit[0]][0], "doc": family(ps[unit[0]][1])[0]})
    return res


class Live:
    """One path object and one list / one mapping that live as long as the unit works on this path: the owner edits
    the container in place into each document of the family in turn, the same path object resolves it again each
    time.  What comes back must be what the container holds now."""

    def __init__(self, p):
        self.p = p
        self.cont = {list: [], dict: {}}
        self.seen = []
        try:
            self.path = T.build_path(p)
        except BaseException:
            self.path = None        # (reported by check_case)

    def step(self, res, doc):
        if self.path is None:
            return
        c = self.cont[type(doc)]
        new = fresh(doc)
        if isinstance(c, list):
            c[:] = new
        else:
            c.clear()
            c.update(new)
        p = self.p
        case = {"path": p, "doc": doc, "live": True}
        res.count("transitions")
        res.count("live_container_steps")
        sel = ref.walk(p, c)
        try:
            got = self.path.get_data(c)
        except BaseException as e:
            res.violation("raises:%s:live:%s" % (type(e).__name__, shape(p)), "%s (one path object, one container edited in place) "
                          "raised %r on %r" % (T.show(p), e, doc), case, observed=repr(e))
            self.path = None
            return
        if not compare(res, got, sel, ref.is_concrete(p), p, doc, case, "live-container", identity=bool(p[1])):
            self.path = None


def replay(case):
    res = Result()
    if case.get("live"):
        Live(case["path"]).step(res, case["doc"])
        return list(res.violations.values())
    for p in case.get("history", []):      # re-create the history (everything resolved before, in this process)
        for doc in CONF_DOCS:
            check_case(Result(), p, doc, key=("replay-h",))
    check_case(res, case["path"], case["doc"], key=("replay",))
    return list(res.violations.values())


def same_node(a, b):
    if isinstance(a, (list, dict)) or isinstance(b, (list, dict)):
        return a is b
    return type(a) is type(b) and a == b


def same_value(a, b):
    """type-exact structural equality"""
    if type(a) is not type(b):
        return False
    if isinstance(a, list):
        return len(a) == len(b) and all(same_value(x, y) for x, y in zip(a, b))
    if isinstance(a, dict):
        return len(a) == len(b) and all(
            same_value(k1, k2) and same_value(v1, v2) for (k1, v1), (k2, v2) in zip(a.items(), b.items()))
    return a == b


def shape(p):
    return "/".join(x[0] for x in p[1]) or "<empty>"


def compare(res, got, sel, conc, p, doc, case, entry, identity=True):
    """got: what the implementation returned; sel: reference [(cp, node)]."""
    same = same_node if identity else same_value
    if conc:
        if not sel:
            ok = got is None
        else:
            ok = same(got, sel[0][1]) or (not p[1] and same_value(got, sel[0][1]))
    else:
        ok = isinstance(got, list) and len(got) == len(sel) and all(same(g, n) for g, (_, n) in zip(got, sel))
    if not ok:
        res.violation("selection:%s:%s" % (entry, shape(p)),
                      "%s via %s on %r selected the wrong nodes" % (T.show(p), entry, doc), case,
                      observed=got, expected=[n for _, n in sel] if not conc else (sel[0][1] if sel else None))
    return ok


def _div_chain(parts):
    """DataPath(first) / second / third ... (each further part given as a part object or primitive)."""
    out = DataPath(T.build_part(parts[0]))
    for x in parts[1:]:
        out = out / T.build_part(x)
    return out


def check_case(res, p, doc, key, history=None):
    res.count("evaluations")
    res.state(*key)
    case = {"path": p, "doc": doc}
    if history:
        case["history"] = history
    d = fresh(doc)
    before = vsnap(d)
    sel = ref.walk(p, d)
    conc = ref.is_concrete(p)
    parts = p[1]
    entries = (
        ("get_data(raw)", lambda: T.build_path(p).get_data(d)),
        ("get_data(Data)", lambda: T.build_path(p).get_data(Data(d))),
        ("Data.get(path)", lambda: Data(d).get(T.build_path(p))),
        ("Data.get(*parts)", lambda: Data(d).get(*[T.build_part(x) for x in parts])),
        ("bound source_data", lambda: T.build_path(p, source_data=d).get_data()),
    )
    if len(parts) >= 2:
        # the same path assembled with the `/` operator from two shorter paths, at every split point
        def joined(k):
            return lambda: (DataPath(*[T.build_part(x) for x in parts[:k]]) / DataPath(*[T.build_part(x) for x in parts[k:]])).get_data(d)
        # (a path assembled from part objects is never "concrete": it answers with a list)
        entries = entries + tuple(("joined at %d" % k, joined(k)) for k in range(1, len(parts)))
        if all(x[0] != "prim" for x in parts[1:]):      # (`path / primitive` is not offered by the library)
            entries = entries + (("joined part by part", lambda: _div_chain(parts).get_data(d)),)
    for entry, fn in entries:
        res.count("transitions")
        try:
            got = fn()
        except BaseException as e:
            res.violation("raises:%s:%s:%s" % (type(e).__name__, entry, shape(p)),
                          "%s via %s raised %r on %r" % (T.show(p), entry, e, doc), case, observed=repr(e),
                          expected="a selection")
            return
        # through a Data wrapper the (mapping) document itself is rebuilt: compare by value there
        identity = not (not parts)
        if not compare(res, got, sel, conc and not entry.startswith("joined"), p, doc, case, entry, identity=identity):
            return
    if vsnap(d) != before:   # (C08's side condition, checked everywhere it is cheap)
        res.violation("document-changed:%s" % shape(p), "resolving %s changed the document %r -> %r" % (T.show(p), doc, d), case,
                      observed=d, expected=doc)
        return
    res.count("validated")
    if sel:
        res.count("nontrivial")
    res.outcome((len(sel), conc))
