"""C06 -- schema verdict is the order-independent conjunction of its rules' verdicts.

T-space: every sequence (= every permutation of every sub-multiset) of 0..n rules from a
12-rule pool x 22 documents; relational oracle on the implementation's own rule tests,
permutation invariance across the sequences of one multiset, absolute reference model.
"""
import itertools

from mc import terms as T, ref
from mc.enc import fresh
from mc.run import Result

from valida.schema import Schema

META = {
    "rule": "every ordered sequence of 0..n rules (n=2 quick, 4 thorough) from a 14-rule cast-free pool "
            "(path lengths 0,0,1,1,1,1,1,1,2,2,1,1 with ties; '1' vs 1 keys) x 22 documents; a case is one (multiset of rules, "
            "document) with all its permutations; non-trivial = at least two rules and at least one failure "
            "or one untested rule",
    "assumptions": ["the layout of the failure report is not judged: it must be a str and, when there are "
                    "failures, some line must contain the elements of each failing path in order",
                    "frac_rules_tested is compared for schemas with >= 1 rule only (undefined for the empty schema)"],
    "bounds": {"quick": {"rules_per_schema": "0-2 over the whole pool, 3-4 over a 5-rule sub-pool", "documents": 22},
               "thorough": {"rules_per_schema": "0-4", "documents": 22}},
}

L = T.leaf
P = T.path
POOL = [
    T.rule(P(()), L("ValueDataType", "equal_to", dict)),
    T.rule(P(()), L("ValueLength", "less_than", 3)),
    T.rule(P((("prim", "a"),)), L("ValueDataType", "equal_to", int)),
    T.rule(P((("prim", "b"),)), L("Value", "less_than", 3)),
    T.rule(P((("map", None, None, None),)), L("ValueDataType", "in_", [int, str])),
    T.rule(P((("prim", "z"),)), L("Value", "truthy")),
    T.rule(P((("prim", 0),)), L("Value", "equal_to", 1)),
    T.rule(P((("prim", "a"),)), L("Value", "keys_contain", "b")),
    T.rule(P((("prim", "a"), ("prim", "b"))), L("Value", "equal_to", 1)),
    T.rule(P((("prim", "c"), ("list", None, None, None))), L("Value", "greater_than", 0)),
    T.rule(P((("prim", "1"),)), L("Value", "equal_to", "x")),
    T.rule(P((("prim", 1),)), L("Value", "equal_to", 5)),
    # an `or` / `xor` whose first branch is undefined for strings / None while the other branch holds
    T.rule(P((("prim", "a"),)), ("or", L("Value", "greater_than", 0), L("ValueDataType", "in_", [str, type(None)]))),
    # a three-part fan-out path: list items that lack the key (scalars, None) before and between those that have it
    T.rule(P((("prim", "c"), ("list", None, None, None), ("prim", "k"))), L("Value", "greater_than", 0)),
]
DOCS = [
    {"a": 1, "b": 2}, {"a": {"b": 1}}, {"a": {"b": 2}, "b": 5}, {"a": "x", "b": "y", "c": [1, 0, -1]},
    {"c": [1, 2]}, {"z": 0}, [1, 2], [0], {0: 1}, {"a": None}, {"a": 1, "b": 2, "c": 3, "d": 4},
    {"a": {"b": 1}, "c": [0, 0]}, {"1": "x", 1: 5, "a": 2}, [7, "y"], {"1": 5, 1: "x"},
    {"a": 1.5, 1: None, None: [1], "b": {}, 2.5: 0.5}, {"c": [0, "x", -1, None, [1]], None: None},
    # keys that equal the indices / keys failing above but differ in type (0 == False == 0.0, 1 == True == 1.0)
    [None, None], {False: 2, True: None}, {0.0: None, 1.0: "q"},
    {"a": "x", "c": [{"k": 1}, 0, {"k": -1}, None, {"k": 0}, [], {"k": 2}]}, {"a": None, "c": [5, {"k": 0}]},
]


OTHERS = [{"a": {"b": 2}, "b": 5, "c": [0, -1], "z": 0, 0: 5, "1": 0, 1: 1}, [5, 5]]


def multisets(tier):
    n = 2 if tier == "quick" else 4
    out = []
    for k in range(n + 1):
        out.extend(itertools.combinations_with_replacement(range(len(POOL)), k))
    if tier == "quick":
        # three and four rules at the quick tier too: every multiset over a 5-rule sub-pool (path lengths 0, 1, 1, 2, 1)
        for k in (3, 4):
            out.extend(itertools.combinations_with_replacement((1, 3, 6, 8, 10), k))
    return out


def units(tier):
    ms = multisets(tier)
    return [[i, min(i + 8, len(ms))] for i in range(0, len(ms), 8)]


def run_unit(unit, tier):
    res = Result()
    ms = multisets(tier)
    for mi in range(unit[0], unit[1]):
        for di, doc in enumerate(DOCS):
            check_case(res, list(ms[mi]), doc, key=(mi, di))
    res.sample({"rules": list(ms[unit[0]]), "doc": DOCS[0]})
    return res


def replay(case):
    res = Result()
    check_case(res, case["rules"], case["doc"], key=("replay",), perms=case.get("perm"))
    return list(res.violations.values())


def names_path(report, cp):
    for line in report.splitlines():
        pos = 0
        ok = True
        for el in cp:
            cands = [line.find(s, pos) for s in (repr(el), str(el))]
            cands = [c for c in cands if c >= 0]
            if not cands:
                ok = False
                break
            pos = min(cands) + 1
        if ok:
            return True
    return False


def check_case(res, idxs, doc, key, perms=None):
    case = {"rules": list(idxs), "doc": doc}
    all_perms = sorted(set(itertools.permutations(idxs))) if perms is None else [tuple(perms)]
    summary = None
    for perm in all_perms:
        res.count("evaluations")
        res.state(key, perm)
        pcase = dict(case, perm=list(perm))
        terms = [POOL[i] for i in perm]
        d = fresh(doc)
        res.count("transitions")
        try:
            schema = Schema([T.build_rule(t) for t in terms])
            vd = schema.validate(d)
            obs = {
                "valid": vd.is_valid, "nf": vd.num_failures, "nt": vd.num_rules_tested,
                "rts": [(rt.is_valid, rt.tested, rt.num_failures, [tuple(f.path) for f in rt.failures])
                        for rt in vd.rule_tests],
            }
            report = vd.get_failures_string()
            frac = vd.frac_rules_tested if terms else None
            # H flavour: the same schema object validates two other documents, then the first result object is read
            # again, in another order: it still says what it said about its own document
            for other in OTHERS:
                schema.validate(fresh(other))
            again = (vd.get_failures_string(), vd.num_rules_tested, vd.num_failures, vd.is_valid,
                     [(rt.is_valid, rt.tested, rt.num_failures, [tuple(f.path) for f in rt.failures]) for rt in vd.rule_tests])
            if again != (report, obs["nt"], obs["nf"], obs["valid"], obs["rts"]):
                res.violation("reread-differs", "reading the same validation result a second time gives different answers", pcase,
                              observed=again, expected=(report, obs["nt"], obs["nf"], obs["valid"], obs["rts"]))
                return
        except BaseException as e:
            res.violation("raises:%s" % type(e).__name__, "validating raised %r" % (e,), pcase, observed=repr(e))
            return
        # rules applied shortest path first, ties in the given order
        want_order = ref.sorted_rules(terms)
        got_rules = schema.rules
        built_sorted = [T.build_rule(t) for t in want_order]
        if len(got_rules) != len(built_sorted) or any(a != b for a, b in zip(got_rules, built_sorted)):
            res.violation("rule-order", "Schema.rules is not the stable length-sort of the supplied rules", pcase,
                          observed=[repr(r) for r in got_rules], expected=[T.show(t) for t in want_order])
            return
        # each rule test equals the rule run separately; aggregates are conjunction / sums
        sep = []
        for r in got_rules:
            res.count("transitions")
            rt = r.test(fresh(doc))
            sep.append((rt.is_valid, rt.tested, rt.num_failures, [tuple(f.path) for f in rt.failures]))
        if obs["rts"] != sep:
            res.violation("rule-tests-differ", "rule_tests differ from running each rule separately", pcase,
                          observed=obs["rts"], expected=sep)
            return
        agg = (all(x[0] for x in sep), sum(x[2] for x in sep), sum(1 for x in sep if x[1]))
        if (obs["valid"], obs["nf"], obs["nt"]) != agg or obs["valid"] is not agg[0]:
            res.violation("aggregate", "validity / failure count / tested count are not the conjunction / sums of "
                          "the rule tests", pcase, observed=(obs["valid"], obs["nf"], obs["nt"]), expected=agg)
            return
        if terms and frac != agg[2] / len(terms):
            res.violation("frac", "frac_rules_tested is not tested/len", pcase, observed=frac,
                          expected=agg[2] / len(terms))
            return
        # absolute reference
        w = ref.schema_validate(("schema", tuple(terms)), doc)
        want = [(t["valid"], t["tested"], len(t["failures"]), [cp for cp, _ in t["failures"]]) for t in w["tests"]]
        if sep != want:
            res.violation("reference", "rule tests differ from the reference model", pcase, observed=sep, expected=want)
            return
        # report
        if not isinstance(report, str):
            res.violation("report-not-str", "get_failures_string() returned %r" % (report,), pcase, observed=repr(report),
                          expected="a str")
            return
        for x in sep:
            for cp in x[3]:
                if not names_path(report, cp):
                    res.violation("report-omits-path", "the failure report does not name failing path %r" % (cp,),
                                  pcase, observed=report, expected=cp)
                    return
        # permutation invariance
        pairs = sorted(((repr(t), cp) for t, x in zip(want_order, sep) for cp in x[3]), key=repr)
        s = (agg, pairs)
        if summary is None:
            summary = s
        elif s != summary:
            res.violation("order-dependent", "verdict / counts / (rule, failing path) set depend on rule order", pcase,
                          observed=s, expected=summary)
            return
        res.count("validated")
    if len(idxs) >= 2 and summary and (summary[0][1] > 0 or summary[0][2] < len(idxs)):
        res.count("nontrivial")
    res.outcome(summary[0] if summary else None)
