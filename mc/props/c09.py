"""C09 -- condition specs mean exactly what the equivalent DSL expression means.

T-space: every leaf term (7 classes x callables x argument tuples) and and/or/xor trees x every
spelling of its spec (letter case per token, aliases, type names, argument shapes).
Oracle: parsed == DSL-built (both directions), same class, same filter results.
"""
import itertools

from mc import terms as T, specs as S
from mc.enc import fresh
from mc.run import Result
from mc.props import c01

from valida.conditions import ConditionLike

META = {
    "rule": "every leaf term of C01 that the DSL builds (tuple and path-like arguments excluded) x spellings: for "
            "the first argument tuple of each (class, callable) the full product of letter-case variants "
            "(lower/UPPER/Capitalised/aLtErNaTiNg per token) x aliases; for every other argument tuple a lower "
            "and an upper-case spelling; x every argument shape and type-name spelling; plus and/or/xor trees of "
            "depth <= 2 over 6 leaves; data-path arguments in 21 argument positions x 18 paths, and x 6 paths that differ only in the type of an equal-valued part (1 / 1.0 / True; 0 / 0.0 / False) parsed in one process in both orders; H: for every spec of a 60-spec "
            "pool as the first spec ever parsed in a pristine process, every spec of the pool parsed next; a case is one (term, spelling) pair; non-trivial = parsed and compared "
            "on the probe documents",
    "assumptions": ["operator keys and/or/xor are lower-case only (the statement puts letter case on the leaf spelling)",
                    "string arguments of type-pre-processor conditions cannot be spelled (type names are looked up): "
                    "recorded as a known finding, see known_findings.json"],
    "bounds": {"quick": {"argument tuples per callable": "<= 12", "trees": "depth 2"},
               "thorough": {"argument tuples per callable": "all of C01's alphabet", "trees": "depth 2"}},
}

LIST_DOC = [0, 1, 2, 3, 1.5, "a", "abc", None, [1, "a"], {"a": 1}, True, "", [], {}, {"a": 1, "b": 2}, -1]
MAP_DOC = dict(zip(["a", "b", "", 1, 0, 1.5, None, "abc", "c", "d", "e", "f", -1, "1", 2, 3], LIST_DOC))


def wellformed(t):
    _, cls, call, args, kwargs = t

    def bad(a):
        if isinstance(a, tuple):
            return True
        if isinstance(a, dict) and len(a) == 1 and isinstance(next(iter(a)), str) and next(iter(a)).startswith("path"):
            return True
        if isinstance(a, list):
            return any(bad(i) for i in a)
        return False

    if any(bad(a) for a in args) or any(bad(v) for _, v in kwargs):
        return False
    if call in ("is_instance", "keys_is_instance") and not all(isinstance(a, type) for a in args):
        return False
    return True


def dtype_str_arg(t):
    _, cls, call, args, kwargs = t
    if T.PREP[cls] != "dtype":
        return False

    def has_str(a):
        return isinstance(a, str) or (isinstance(a, list) and any(isinstance(i, str) for i in a))
    return any(has_str(a) for a in args)


def leaf_terms(cls, call, tier):
    ts = [t for t in c01.leaf_terms(cls, call) if wellformed(t)]
    out = []
    for t in ts:
        try:
            T.build_cond(t)
        except Exception:
            continue
        out.append(t)
    if tier == "quick" and len(out) > 12:
        step = len(out) / 12.0
        out = [out[int(i * step)] for i in range(12)]
    return out


def hist_pool():
    """One representative spec per (class, signature kind) + mapping callables + aliases."""
    out = []
    for cls in T.CLASSES:
        seen = set()
        for call in T.CALLABLES[cls]:
            k = (T.SIG[call][0], call in T.MAPC)
            if k in seen and call not in ("keys_contain_N_of", "items_contain", "allowed_keys", "is_instance"):
                continue
            seen.add(k)
            ts = [t for t in leaf_terms(cls, call, "quick") if not dtype_str_arg(t)]
            if ts:
                t = ts[min(1, len(ts) - 1)]
                type_names = T.PREP[cls] == "dtype" or call in ("is_instance", "keys_is_instance")
                out.append((t, {S.key_spellings(cls, call, full=False)[0]: S.value_spellings(t, type_names)[0]}))
    return out


def path_arg_cases(pargs=None):
    from mc.props.c17 import PARGS, positions
    out = []
    for pa in (PARGS if pargs is None else pargs):
        for pos, cond in positions(pa):
            if cond[0] == "leaf":
                out.append((cond, S.cond_spec(cond)))
                kind, names = T.SIG[cond[2]]
                if kind == "multi":   # positional-list spelling too
                    vals = [S.item_spec(a) for a in cond[3]] + [S.item_spec(v) for _, v in cond[4]]
                    if len(vals) == len(names) or cond[2] == "equal_to_approx":
                        out.append((cond, {next(iter(S.cond_spec(cond))): vals}))
    return out


def units(tier):
    u = [["L", cls, call] for cls in T.CLASSES for call in T.CALLABLES[cls]]
    u.append(["T"])
    u.append(["P"])
    u.append(["NOISE"])
    u += [["PC", 0], ["PC", 1], ["ESC"]]
    u += [["H", i] for i in range(len(hist_pool()))]
    return u


def run_unit(unit, tier):
    res = Result()
    if unit[0] == "L":
        _, cls, call = unit
        type_names = T.PREP[cls] == "dtype" or call in ("is_instance", "keys_is_instance")
        for ti, t in enumerate(leaf_terms(cls, call, tier)):
            keys = S.key_spellings(cls, call, full=(ti == 0))
            vals = S.value_spellings(t, type_names)
            for ki, k in enumerate(keys):
                for vi, v in enumerate(vals):
                    check_case(res, t, {k: v}, key=(cls, call, ti, ki, vi))
            if ti == 0:
                res.sample({"term": t, "spec": {keys[-1]: vals[-1]}})
    elif unit[0] == "NOISE":
        # malformed / unusual specs first (all rejected or accepted, exceptions swallowed), then the whole history pool and
        # the data-path argument cases must still parse to the DSL-built conditions
        from mc.noise import make_noise
        res.count("transitions", make_noise())
        for j, (t, s) in enumerate(hist_pool()):
            check_case(res, t, s, key=("NOISE", j), before=["<noise>"])
        for cls in ("Value", "Key", "ValueLength"):
            for t in leaf_terms(cls, "equal_to_approx", "thorough") + leaf_terms(cls, "in_range", "quick"):
                for v in S.value_spellings(t, False):
                    check_case(res, t, {S.key_spellings(cls, t[2], full=False)[0]: v}, key=("NOISE", cls, repr(t), repr(v)), before=["<noise>"])
    elif unit[0] == "P":
        # data-path arguments in every argument position, keyword-mapping and positional-list spellings
        for i, (t, spec) in enumerate(path_arg_cases()):
            check_case(res, t, spec, key=("P", i))
        res.sample({"term": path_arg_cases()[0][0], "spec": path_arg_cases()[0][1]})
    elif unit[0] == "ESC":
        # literal mapping arguments that have 'path' among their keys, every escaped / unescaped spelling, in every
        # argument position the parser inspects for data paths
        for i, (t, spec) in enumerate(S.litmap_cases()):
            check_case(res, t, spec, key=("ESC", i))
    elif unit[0] == "PC":
        # data-path arguments that differ only in the type of an equal-valued part (1 / 1.0 / True), all parsed in one
        # process, in both orders
        from mc.props.c17 import PARGS_CONF
        # (+ paths whose parts are spelled like type names / callables / datum kinds)
        named = [T.path((("prim", "cfg"), ("prim", "list"))), T.path((("prim", "int"),), "dtype"), T.path((("prim", "str"), ("prim", "dict")), "length"),
                 T.path((("prim", "value"), ("prim", "path"))), T.path((("prim", "map"), ("prim", "bool")), "dtype")]
        cs = path_arg_cases((PARGS_CONF if unit[1] == 0 else PARGS_CONF[::-1]) + named)
        for i, (t, spec) in enumerate(cs):
            check_case(res, t, spec, key=("PC", unit[1], i))
    elif unit[0] == "H":
        # H-space for hidden parser state: this unit runs in a pristine process; spec i is the first
        # spec ever parsed, then every spec of the pool is parsed and compared with the DSL
        pool = hist_pool()
        t0, s0 = pool[unit[1]]
        check_case(res, t0, s0, key=("H", unit[1], "first"))
        for j, (t, s) in enumerate(pool):
            check_case(res, t, s, key=("H", unit[1], j), before=[s0])
        res.sample({"term": t0, "spec": s0})
    else:
        from mc.props.c02 import trees, spec_of, LEAVES as L2
        # and/or/xor lists of 0..5 entries == the left fold c1 op c2 op ... built with the Python operators
        names = ["v1", "v2", "v3", "vn", "null", "k1"]
        for op in ("and", "or", "xor"):
            for n in range(0, 6):
                for tup in (itertools.product(names, repeat=n) if n <= 3 else
                            [tuple(names[(s + j * st) % len(names)] for j in range(n)) for s in range(len(names)) for st in (1, 2, 5)]):
                    term = T.NULL
                    for nm in tup:
                        term = (op, term, L2[nm]) if term != T.NULL else L2[nm]
                    # null operands are dropped by the fold: build the expected term without them
                    term = T.NULL
                    for nm in tup:
                        if nm == "null":
                            continue
                        term = L2[nm] if term == T.NULL else (op, term, L2[nm])
                    check_case(res, term, {op: [spec_of(L2[nm]) for nm in tup]}, key=("N", op, tup))
        # the same spec *object* at several places of one structure (what a YAML anchor / alias loads as, or a Python
        # dict used twice): leaf specs and operator sub-specs, twice in one list and in two different branches
        def shared_spec(t, memo):
            k = repr(t)
            if k not in memo:
                memo[k] = spec_of(t) if t[0] in ("leaf", "null") else {t[0]: [shared_spec(t[1], memo), shared_spec(t[2], memo)]}
            return memo[k]
        for op1 in ("and", "or", "xor"):
            for op2 in ("and", "or", "xor"):
                for a, b in (("v1", "v2"), ("v1", "k1"), ("v3", "v3"), ("null", "v2")):
                    X = (op2, L2[a], L2[b])
                    for t in ((op1, X, X), (op1, ("and", X, L2["v3"]), ("or", X, L2["v2"])), (op1, L2[a], L2[a]),
                              (op1, (op2, X, L2["v1"]), X)):
                        check_case(res, drop_null(t), shared_spec(t, {}), key=("SH", op1, op2, a, b, repr(t)))
        for i, t in enumerate(trees(2)):
            kinds = T.cond_kinds(t)
            if "key" in kinds and "index" in kinds:
                continue
            check_case(res, t, spec_of(t), key=("T", i))
            # upper-case leaf keys inside the operator list
            if t[0] in ("and", "or", "xor"):
                sp = spec_of(t)
                sp = {t[0]: [{k.upper(): v for k, v in s.items()} for s in sp[t[0]]]}
                check_case(res, t, sp, key=("TU", i))
    return res


def replay(case):
    res = Result()
    check_case(res, case["term"], case["spec"], key=("replay",), before=case.get("before"), replaying=True)
    return list(res.violations.values())


def check_case(res, t, spec, key, before=None, replaying=False):
    res.count("evaluations")
    res.state(*key)
    case = {"term": t, "spec": spec}
    if before:
        case["before"] = before
        if replaying:   # re-create the history: the specs parsed before this one
            if before == ["<noise>"]:
                from mc.noise import make_noise
                make_noise()
                before = []
            for b in before:
                try:
                    ConditionLike.from_spec(fresh_spec(b))
                except BaseException:
                    pass
    name = "%s.%s" % (t[1], t[2]) if t[0] == "leaf" else "tree"
    built = T.build_cond(t)
    sp = fresh_spec(spec)
    res.count("transitions")
    try:
        parsed = ConditionLike.from_spec(sp)
    except BaseException as e:
        if t[0] == "leaf" and dtype_str_arg(t):
            res.violation("unspellable:dtype-str-arg:%s" % t[1], "%s cannot be written as a spec: %r -> %r"
                          % (T.show(t), spec, e), case, observed=repr(e), expected=T.show(t))
            return
        res.violation("parse:%s:%s" % (type(e).__name__, name), "spec %r of %s was rejected: %r" % (spec, T.show(t), e),
                      case, observed=repr(e), expected=T.show(t))
        return
    if type(parsed) is not type(built) or not (parsed == built) or not (built == parsed) or (parsed != built):
        res.violation("unequal:%s" % name, "spec %r parses to %r, not equal to the DSL-built %r" % (spec, parsed, built),
                      case, observed=repr(parsed), expected=repr(built))
        return
    # the same spec object parsed once more (what a YAML anchor used in two places amounts to) means the same
    res.count("transitions")
    try:
        parsed2 = ConditionLike.from_spec(sp)
        same2 = type(parsed2) is type(built) and parsed2 == built and built == parsed2
    except BaseException as e:
        parsed2, same2 = repr(e), False
    if not same2:
        res.violation("second-parse:%s" % name, "spec %r parsed a second time (same object) gives %r, not the DSL-built %r"
                      % (spec, parsed2, built), case, observed=repr(parsed2), expected=repr(built))
        return
    kinds = T.cond_kinds(t)
    docs = []
    if "index" not in kinds:
        docs.append(MAP_DOC)
    if "key" not in kinds:
        docs.append(LIST_DOC)
    for doc in docs:
        res.count("transitions", 2)
        try:
            a = parsed.filter(fresh(doc)).result
            b = built.filter(fresh(doc)).result
        except BaseException as e:
            res.violation("filter-raises:%s:%s" % (type(e).__name__, name), "filtering raised %r" % (e,), case,
                          observed=repr(e))
            return
        if a != b:
            res.violation("behaviour:%s" % name, "spec %r parses to a condition that filters differently from %s"
                          % (spec, T.show(t)), case, observed=a, expected=b)
            return
        res.outcome(tuple(a))
    res.count("validated")
    res.count("nontrivial")


def drop_null(t):
    """The term without its null operands (null is the identity of every operator)."""
    if t[0] in ("and", "or", "xor"):
        a, b = drop_null(t[1]), drop_null(t[2])
        if a == T.NULL:
            return b
        if b == T.NULL:
            return a
        return (t[0], a, b)
    return t


def fresh_spec(x):
    return fresh(x)     # type-exact copy that keeps sharing inside the structure


def _fresh_spec_unshared(x):
    if isinstance(x, dict):
        return {k: fresh_spec(v) for k, v in x.items()}
    if isinstance(x, list):
        return [fresh_spec(i) for i in x]
    if isinstance(x, tuple):
        return tuple(fresh_spec(i) for i in x)
    return x
