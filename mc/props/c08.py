"""C08 -- validation is read-only: inputs and schema unchanged, results repeatable.

H part: every sequence (depth bound) of filter / get / test / validate / == / to_json_like
operations on one shared world of live schema, rule, condition, path and document objects,
executed statelessly (no history is merged -- the invariant itself says exactly one state may be
reachable).  After every operation: identical snapshot of the whole world, no attribute write
to a pre-existing valida object (harness-side write tracer), result equal to the same
operation on freshly built objects, cast data not aliasing the caller's document.
S part (mc.sspace): every 2-thread interleaving with a bounded number of preemptions.
"""
import itertools

import mc  # noqa
from mc.enc import fresh
from mc.run import Result
from mc.snapshot import snap, vsnap, aliases, WriteTracer, mutable_ids

from valida import Value, Key, Index, Data, DataPath, Rule, Schema
from valida.casting import CAST_LOOKUP
from valida.datapath import MapValue, ListValue, MapOrListValue

META = {
    "rule": "H: every sequence of <= depth operations from the operation menu on one shared world (5 schemas with "
            "14 rules, one of them with a cast mapping supplied by the caller through the Python API, their conditions/paths/parts, 3 documents); executions are histories, none merged; state = "
            "identity-aware snapshot of the whole world (must stay the single initial state); non-trivial = "
            "history of >= 2 operations whose last result was compared with the fresh-object result. "
            "S: every schedule of 2 threads x 1-2 operations with <= k preemptions at line granularity",
    "assumptions": ["thread switches happen between source lines of valida/*.py, and between bytecodes inside write-ish lines "
                    "where the 'write+op' point set is used (sys.settrace line / opcode events); CPython GIL semantics; 2 threads",
                    "DFS below each depth-1 prefix reuses the live world (its snapshot is verified after every "
                    "operation); any violation is recorded with the full operation list since the world was built "
                    "and re-confirmed by a from-scratch replay"],
    "bounds": {"quick": {"history_depth": 2, "preemptions": "<= 1 over write-ish line points (before each write and at the line after it), 9 harnesses; for two small "
                                                        "harnesses (two-filters, warm-cast-race) also at every bytecode boundary inside a write-ish line"},
               "thorough": {"history_depth": 3, "preemptions": "<= 1 over ALL line points and over write-ish points at bytecode granularity (9 harnesses); <= 2 over "
                                                                 "write-ish points for the 3 smallest harnesses (two-filters, same-rule-twice, part-combinations)"}},
    "technique": "stateless exploration of all operation histories on shared live objects + CHESS-style "
                 "preemption-bounded exploration of all 2-thread schedules under a cooperative line-level scheduler",
}

INT = {str: int}
BOOL = {str: CAST_LOOKUP[(str, bool)]}


class World:
    def __init__(self):
        a = Value.greater_than(0)
        b = Value.less_than(10)
        self.a, self.b = a, b
        self.ab = a & b
        self.k = Key.in_(["a", "m"]) | Key.dtype.equal_to(int)
        self.part = MapOrListValue(value=self.ab)
        self.mpart = MapValue(key=self.k)
        # a map-or-list part whose key, index and value conditions are all non-null: filtering with it builds a
        # real combination on every call (whereas `part` takes the null short-cut)
        self.part2 = MapOrListValue(key=Key.not_equal_to("zz"), index=Index.less_than(4), value=Value.not_equal_to("x"))
        self.pa = DataPath("a")
        self.rows = DataPath("tbl", ListValue(), ListValue())
        self.s_cast = Schema([
            Rule(["m"], Value.dtype.equal_to(dict), cast=dict(INT)),
            Rule(["m", "x"], Value.dtype.equal_to(int), cast=dict(INT)),
            Rule([MapValue(), "flag"], Value.dtype.equal_to(bool), cast=dict(BOOL)),
            Rule([0], Value.equal_to(3), cast=dict(INT)),
            Rule([MapOrListValue(), "x"], Value.dtype.equal_to(int), cast=dict(INT)),
        ])
        self.s_path = Schema([
            Rule(self.pa, Value.equal_to(DataPath("b"))),
            Rule([self.part], Value.in_range(lower=DataPath("lo"), upper=5)),
            Rule(["lst", ListValue()], (Value.dtype.equal_to(int) & a) | Value.equal_to("x")),
            Rule(self.rows, a),
        ])
        # a prefix-closed schema for the documentation tree (C20's premise)
        self.s_doc = Schema([
            Rule([], Value.dtype.equal_to(dict) & Value.required_keys("a") & Value.allowed_keys("a", "b")),
            Rule(["a"], Value.dtype.equal_to(list), doc={"description": ["the `a` list"], "examples": []}),
            Rule(["a", ListValue()], Value.dtype.equal_to(int) & a),
        ])
        # a one-rule cast schema and two tiny documents with strings that occur nowhere else
        self.s_one = Schema([Rule(["v"], Value.dtype.equal_to(int), cast=dict(INT))])
        self.ones = [{"v": "70001"}, {"v": "70002"}, Data({"v": "70003"})]
        # a cast mapping supplied by the caller through the Python API, from a type that has a sub-type among the
        # JSON values (bool is an int): the mapping object itself is part of the world and must stay as given
        self.user_cast = {int: float}
        self.s_user = Schema([Rule(["bits", ListValue()], Value.dtype.equal_to(float), cast=self.user_cast)])
        # a schema built without casts that later received casting rules through add_schema (under a concrete and under a
        # fan-out root): whatever it derived from its rules when it was built is stale by then
        self.s_grown = Schema([Rule(["a"], a)])
        self.s_grown.add_schema(Schema([Rule(["x"], Value.dtype.equal_to(int), cast=dict(INT)),
                                        Rule(["flag"], Value.dtype.equal_to(bool), cast=dict(BOOL))]), DataPath("m"))
        self.s_grown.add_schema(Schema([Rule(["flag"], Value.dtype.equal_to(bool), cast=dict(BOOL))]), DataPath(MapOrListValue()))
        # a fan-out cast rule that meets a castable string *before* a container, and a deeper cast rule into that container
        self.s_wild = Schema([Rule([MapValue()], Value.dtype.in_([int, dict, list]), cast=dict(INT)),
                              Rule(["opts", "level"], Value.dtype.equal_to(int), cast=dict(INT)),
                              Rule([MapValue(), ListValue()], Value.dtype.equal_to(bool), cast=dict(BOOL))])
        self.d5 = {"count": "3", "opts": {"level": "7", "k": "x"}, "flags": ["true", "no"], "z": "zz"}
        self.rules = self.s_cast.rules + self.s_path.rules
        self.d1 = {"m": {"x": "3", "flag": "true"}, "a": 1, "b": 1, "lo": 0, "lst": [1, "x", -2], "n": 4, "bits": [1, True, 2.5, "7", False],
                   "w": {"flag": "3", "x": "true"}, "tbl": [[1, 2], [3, 4], [5, 6]]}
        self.d2 = ["3", {"flag": "FALSE"}, [1, 2], 7, {"flag": "3"}, [3, 4]]
        self.d3 = Data({"a": 2, "b": [1, 2], "m": {"x": "abc"}, "tbl": [[7], [8, 9]]})
        self.docs = [self.d1, self.d2, self.d3]
        self.d4 = Data(["p", "q", "r", {"a": 1}])

    def roots(self):
        return [self.a, self.b, self.ab, self.k, self.part, self.part2, self.mpart, self.pa, self.rows, self.s_cast, self.s_path, self.s_doc, self.s_one, self.ones, self.d4, self.s_user, self.user_cast, self.s_grown, self.s_wild, self.d5,
                self.d1, self.d2, self.d3]


def obs_filtered(fd):
    return ("filtered", tuple(fd.result), vsnap(list(fd.data)), vsnap(list(fd.keys)), tuple(fd.failure_indices))


def obs_ruletest(rt):
    return ("ruletest", rt.is_valid, rt.tested, rt.num_failures,
            tuple((tuple(f.path), vsnap(f.value), f.reasons) for f in rt.failures),
            vsnap(rt.data.get_original()))


def obs_validated(vd):
    return ("validated", vd.is_valid, vd.num_failures, vd.num_rules_tested, vsnap(vd.cast_data),
            tuple(obs_ruletest(rt) for rt in vd.rule_tests), vd.get_failures_string())


def _raw(doc):
    return doc.get_original() if isinstance(doc, Data) else doc


def menu():
    ops = []
    for di in range(3):
        ops.append(("filter a", di, lambda w, di=di: obs_filtered(w.a.filter(w.docs[di]))))
        ops.append(("filter a&b", di, lambda w, di=di: obs_filtered(w.ab.filter(w.docs[di]))))
        ops.append(("part.filter", di, lambda w, di=di: obs_filtered(w.part.filter(w.docs[di]))))
        ops.append(("part2.filter", di, lambda w, di=di: obs_filtered(w.part2.filter(w.docs[di]))))
        ops.append(("get a", di, lambda w, di=di: vsnap(w.pa.get_data(w.docs[di])) if di != 1 else vsnap(w.pa.get_data(w.docs[di], return_paths=True))))
        ops.append(("get part paths", di, lambda w, di=di: vsnap(DataPath(w.part).get_data(w.docs[di], return_paths=True))))
        ops.append(("get rows", di, lambda w, di=di: vsnap((w.rows if di != 1 else DataPath(ListValue(), ListValue())).get_data(w.docs[di], return_paths=(di == 0)))))
        ops.append(("validate cast", di, lambda w, di=di: obs_validated(w.s_cast.validate(w.docs[di]))))
        ops.append(("validate one", di, lambda w, di=di: obs_validated(w.s_one.validate(w.ones[di]))))
        ops.append(("validate user-cast", di, lambda w, di=di: obs_validated(w.s_user.validate(w.docs[di]))))
        ops.append(("validate grown", di, lambda w, di=di: obs_validated(w.s_grown.validate(w.docs[di]))))
        ops.append(("validate path", di, lambda w, di=di: obs_validated(w.s_path.validate(w.docs[di]))))
        for ri in range(9):
            ops.append(("test r%d" % ri, di, lambda w, di=di, ri=ri: obs_ruletest(w.rules[ri].test(w.docs[di]))))
    ops.append(("validate wild", None, lambda w: obs_validated(w.s_wild.validate(w.d5))))
    ops.append(("test wild rules", None, lambda w: tuple(obs_ruletest(r.test(w.d5)) for r in w.s_wild.rules)))
    ops.append(("filter k", 0, lambda w: obs_filtered(w.k.filter(w.d1))))
    ops.append(("mpart.filter", 2, lambda w: obs_filtered(w.mpart.filter(w.d3))))
    ops.append(("Data.get", 2, lambda w: vsnap(w.d3.get(DataPath("b", ListValue()), return_paths=True))))
    ops.append(("Data.get parts", 2, lambda w: vsnap(w.d3.get("m", "x"))))
    for pi, part in enumerate((1, 1.0, True, "1", 0, 0.0, False)):
        ops.append(("Data.get %r" % (part,), None, lambda w, part=part: vsnap((w.d4.get(part), w.d4.get(part, return_paths=True),
                                                                                w.d3.get("b", part)))))
    ops.append(("eq schemas", None, lambda w: (w.s_cast == w.s_cast, w.s_cast == w.s_path, w.rules[0] == w.rules[1],
                                               w.pa == DataPath("a"), w.ab == (w.b & w.a), w.part == w.mpart)))
    ops.append(("to_json_like", None, lambda w: vsnap([w.ab.to_json_like(), w.k.to_json_like(), w.pa.to_json_like(),
                                                       w.rules[7].condition.to_json_like()])))
    ops.append(("len/rules", None, lambda w: (len(w.s_cast), len(w.s_path), len(w.s_cast.rules), len(w.rules[1].path))))
    ops.append(("to_tree", None, lambda w: (len(w.s_doc.to_tree()), len(w.s_doc.to_tree(nested=True)),
                                            [len(n.get("children", [])) for n in w.s_doc.to_tree(nested=True)])))
    ops.append(("repr", None, lambda w: (repr(w.s_cast.rules[0]), repr(w.part), repr(w.ab), repr(w.pa))))
    return ops


MENU = menu()


def make_world(res):
    try:
        return World()
    except BaseException as e:
        res.violation("world-build:%s" % type(e).__name__, "building the shared schemas / rules / paths raised %r" % (e,),
                      {"kind": "H", "ops": []}, observed=repr(e))
        return None


def run_op(w, oi):
    name, di, fn = MENU[oi]
    try:
        return ("ok", fn(w))
    except BaseException as e:
        return ("raises", type(e).__name__, str(e)[:80])


_expected = {}


def expected(oi):
    """Result of the operation on freshly built objects -- computed in a pristine forked process, so that
    hidden module-level state left behind by the history under test cannot leak into the expectation."""
    if oi not in _expected:
        from mc.fresh import run_fresh
        _expected[oi] = run_fresh(lambda: run_op(World(), oi))
    return _expected[oi]


def units(tier):
    u = [["H", i] for i in range(len(MENU))]
    try:
        from mc import sspace
        u += sspace.units(tier)
    except ImportError:
        pass
    return u


def run_unit(unit, tier):
    res = Result()
    if unit[0] == "H":
        depth = 2 if tier == "quick" else 3
        explore(res, unit[1], depth)
    else:
        from mc import sspace
        sspace.run_unit(res, unit, tier)
    return res


def replay(case):
    res = Result()
    if case.get("kind") == "S":
        from mc import sspace
        sspace.replay(res, case)
    else:
        w = make_world(res)
        if w is None:
            return list(res.violations.values())
        st = Stepper(res, w)
        for n, oi in enumerate(case["ops"]):
            if not st.step(oi, case["ops"][: n + 1]):
                break
    return list(res.violations.values())


class Stepper:
    def __init__(self, res, w):
        self.res = res
        self.w = w
        self.roots = w.roots()
        self.init = snap(self.roots)
        self.pre = {}
        for r in self.roots:
            mutable_ids(r, self.pre)

    def step(self, oi, ops_so_far):
        res, w = self.res, self.w
        name = MENU[oi][0]
        case = {"kind": "H", "ops": list(ops_so_far), "names": [MENU[i][0] + ("@d%d" % (MENU[i][1] + 1) if MENU[i][1] is not None else "") for i in ops_so_far]}
        res.count("transitions")
        tr = WriteTracer([])
        tr.pre = self.pre
        with tr:
            out = run_op(w, oi)
        if tr.writes:
            res.violation("write:%s:%s" % (name, sorted(set(tr.writes))[0]), "operation %r wrote to pre-existing objects: %r"
                          % (name, sorted(set(tr.writes))), case, observed=sorted(set(tr.writes)), expected="no write")
            return False
        now = snap(self.roots)
        res.states.add(hash(now))
        if now != self.init:
            res.violation("state-changed:%s" % name, "after %r the shared world no longer has its initial snapshot"
                          % (name,), case, observed=_diff(now, self.init), expected="unchanged")
            return False
        want = expected(oi)
        if out != want:
            res.violation("result-differs:%s" % name, "operation %r on reused objects after %r differs from the same "
                          "operation on freshly built objects" % (name, case["names"][:-1]), case, observed=out, expected=want)
            return False
        if name == "validate cast" and out[0] == "ok":
            try:
                doc = w.docs[MENU[oi][1]]
                vd = w.s_cast.validate(doc)
                if aliases(vd.cast_data, _raw(doc)) or any(aliases(rt.data, _raw(doc)) for rt in vd.rule_tests if rt.rule.cast):
                    res.violation("cast-aliasing", "cast_data / RuleTest.data share a mutable container with the "
                                  "caller's document", case, observed="aliased", expected="private copy")
                    return False
            except BaseException:
                pass
        if out[0] == "raises":
            res.violation("raises:%s:%s" % (name, out[1]), "operation %r raised %s" % (name, out[1:]), case, observed=out)
            return False
        res.count("validated")
        return True


def _diff(a, b, path="root"):
    if type(a) is not type(b) or not isinstance(a, tuple):
        return "%s: %r != %r" % (path, a, b) if a != b else None
    if len(a) != len(b):
        return "%s: length %d != %d" % (path, len(a), len(b))
    for i, (x, y) in enumerate(zip(a, b)):
        if x != y:
            return _diff(x, y, "%s[%d]" % (path, i))
    return None


def explore(res, first, depth):
    """All operation sequences of length <= depth starting with MENU[first]."""
    # expectations first, each from a fork of this still-pristine worker (nothing has run in it yet)
    try:
        for oi in range(len(MENU)):
            expected(oi)
    except RuntimeError:
        pass   # a world that cannot be built is reported by make_world below
    w = make_world(res)
    if w is None:
        return
    st = Stepper(res, w)
    done = []  # every operation executed on this world so far (for faithful replay)

    def alias_check(oi):
        return True

    def rec(prefix):
        nonlocal w, st, done
        oi = prefix[-1]
        done.append(oi)
        res.count("evaluations")
        ok = st.step(oi, list(done))
        if not ok:
            w = World()
            st = Stepper(res, w)
            done = []
            return
        if len(prefix) >= 2:
            res.count("nontrivial")
        if len(prefix) < depth:
            for nxt in range(len(MENU)):
                rec(prefix + [nxt])

    rec([first])
    # aliasing of cast results with the caller's documents (invariant 4)
    w2 = make_world(res)
    for di, doc in enumerate(w2.docs if w2 else []):
        res.count("transitions")
        case = {"kind": "H", "ops": [i for i, m in enumerate(MENU) if m[0] == "validate cast" and m[1] == di]}
        try:
            vd = w2.s_cast.validate(doc)
            raw = _raw(doc)
            bad = aliases(vd.cast_data, raw) or any(aliases(rt.data, raw) for rt in vd.rule_tests if rt.rule.cast)
        except BaseException as e:
            res.violation("raises:validate cast:%s" % type(e).__name__, "validate raised %r" % (e,), case, observed=repr(e))
            continue
        if bad:
            res.violation("cast-aliasing", "cast_data / RuleTest.data share a mutable container with the caller's document",
                          case, observed="aliased", expected="private copy")
    res.outcome(expected(first)[0])
    res.sample({"kind": "H", "ops": [first, (first + 7) % len(MENU)], "names": [MENU[first][0], MENU[(first + 7) % len(MENU)][0]]})
