"""C04 -- reported concrete paths are truthful; path modifiers mean what they say.

Same (path, document) space as C03 plus the modifier dimension: 5 datum x 5 multiplicity
modifiers x both application orders x return_paths in {False, True}.
"""
from mc import terms as T, ref, gen
from mc.enc import fresh
from mc.run import Result
from mc.props.c03 import same_node, same_value, shape
from mc.snapshot import vsnap

META = {
    "rule": "(plus, H flavour: every modifier variant derived from a path object AFTER it was evaluated on the wrapped document) every path x every (datum, multiplicity, order) combination x return_paths x every document; "
            "a case is one (path, modifiers, document) triple; non-trivial = the selection is non-empty and "
            "the datum modifier is defined on every selected node; pairs whose selection is empty are run "
            "with every eighth modifier combination (must give [] / None)",
    "assumptions": ["paths of length >= 3 are run with the datum modifiers {none, length} only and on the F-deep + F-type documents only",
                    "DataPath.any() is documented in the code as unimplemented and is not judged",
                    "C04 quantifies over every document: four documents with tuple-valued mapping keys are part of the family "
                    "(a reported path holds such a key as one element)",
                    "documents on which the datum modifier is undefined for a selected node are executed "
                    "and counted but not judged (quantifier of C04)"],
    "bounds": {
        "quick": {"paths": "length<=1 over 42 parts, length 2 over a 12-part, length 3 over a 7-part sub-alphabet",
                  "documents": "F-struct(3) + F-type flat/two-level + F-deep"},
        "thorough": {"paths": "length<=1 over 42 parts, length 2 over 20 parts, length 3 over 7 parts, length 4 over 5 parts",
                     "documents": "F-struct(4) + F-type flat/two-level + F-deep"},
    },
}

COMBOS = []
for _d in T.DATUMS:
    for _m in T.MULTIS:
        COMBOS.append((_d, _m, "dm"))
        if _d is not None and _m is not None:
            COMBOS.append((_d, _m, "md"))


def path_list(tier):
    three = [p for p in gen.paths(3, gen.PARTS7) if len(p[1]) == 3]
    if tier == "quick":
        return list(gen.paths(1, gen.PARTS)) + [p for p in gen.paths(2, gen.PARTS12) if len(p[1]) == 2] + three
    four = [p for p in gen.paths(4, gen.BARE + [gen.PRIMS[0], gen.PRIMS[3]]) if len(p[1]) == 4]
    return list(gen.paths(1, gen.PARTS)) + [p for p in gen.paths(2, gen.PARTS20) if len(p[1]) == 2] + three + four


# mapping keys that are themselves tuples (hashable, so legal keys of a Python mapping; C04 quantifies over every
# document): a reported path holds such a key as ONE element
TUPLE_KEY_DOCS = [{("a", "b"): 1, "a": {"b": 2}}, {(0, 1): [1, 2], 0: [5, 6], 1: 7}, {(): 1, "a": {(1,): [3], 1: [4]}},
                  [{("a",): {"a": 1}}, {"a": 2}]]


def family(tier):
    return (gen.docs_struct(3) if tier == "quick" else gen.docs_struct(4)) + gen.docs_type2() + gen.docs_deep() + TUPLE_KEY_DOCS


_pl = {}


def _paths(tier):
    if tier not in _pl:
        _pl[tier] = path_list(tier)
    return _pl[tier]


def prepare(tier):
    _paths(tier)
    family(tier)


def units(tier):
    return gen.chunks(len(_paths(tier)), 2)


def run_unit(unit, tier):
    res = Result()
    ps = _paths(tier)
    docs = family(tier)
    for pi in range(unit[0], unit[1]):
        check_path(res, ps[pi], docs, pi)
    res.sample({"path": ps[unit[0]], "datum": "length", "multi": "first", "order": "md", "doc": docs[0]})
    return res


def replay(case):
    res = Result()
    p = case["path"]
    combos = [(case["datum"], case["multi"], case["order"])] if "datum" in case else None
    if case.get("derived_after_evaluation"):
        combos = None   # the derived variants are compared with all pre-built ones
    check_path(res, p, [case["doc"]], "replay", combos=combos)
    return list(res.violations.values())


def reach(doc, cp):
    for k in cp:
        doc = doc[k]
    return doc


COMBOS_LONG = [c for c in COMBOS if c[0] in (None, "length")]


def check_path(res, p, docs, pi, combos=None):
    if combos is None:
        combos = COMBOS if len(p[1]) <= 2 else COMBOS_LONG
    if len(p[1]) > 2 and len(docs) > 1:
        docs = gen.docs_deep() + gen.docs_type2()
    conc = ref.is_concrete(p)
    built = {}
    for (dat, mul, order) in combos:
        pt = T.path(p[1], dat, mul, order)
        res.count("transitions")
        try:
            built[(dat, mul, order)] = (pt, T.build_path(pt))
        except ValueError as e:
            if conc and mul is not None:
                res.count("multi_refused_on_concrete")
                continue
            res.violation("build:ValueError:%s" % shape(p), "building %s raised %r" % (T.show(pt), e),
                          {"path": p, "datum": dat, "multi": mul, "order": order, "doc": docs[0]}, observed=repr(e))
            return
        except BaseException as e:
            res.violation("build:%s:%s" % (type(e).__name__, shape(p)), "building %s raised %r" % (T.show(pt), e),
                          {"path": p, "datum": dat, "multi": mul, "order": order, "doc": docs[0]}, observed=repr(e))
            return
        if conc and mul is not None:
            res.violation("multi-on-concrete-accepted", "%s was accepted on a concrete path" % T.show(pt),
                          {"path": p, "datum": dat, "multi": mul, "order": order, "doc": docs[0]})
            return
    for di, doc in enumerate(docs):
        d = fresh(doc)
        sel = ref.walk(p, d)
        if sel and len(p[1]) <= 2 and not derive_after_evaluate(res, p, built, d, doc, sel, conc, (pi, di)):
            return
        for n, (combo, (pt, obj)) in enumerate(built.items()):
            if not sel and n % 8 > 1 and len(built) > 8:
                continue  # nothing selected: every modifier must give [] / None -- the unmodified path and a sixth of the combinations are run
            if not check_case(res, pt, obj, combo, d, doc, sel, conc, (pi, di, combo)):
                return


def derive_after_evaluate(res, p, built, d, doc, sel, conc, key):
    """H flavour: the modifiers derive a new path from a live object.  The base path is first evaluated on the
    (wrapped) document, then every modifier variant is derived from that *evaluated* object and evaluated on the
    same Data object: it must give what the variant built before any evaluation gives."""
    from valida.data import Data
    base = T.build_path(T.path(p[1]))
    D = Data(d)
    try:
        base.get_data(D, return_paths=False)
        base.get_data(D, return_paths=True)
    except BaseException:
        return True   # judged by check_case
    for (dat, mul, order), (pt, obj) in built.items():
        if dat is None and mul is None:
            continue
        res.count("evaluations")
        res.state(key, "derived", dat, mul, order)
        case = {"path": T.path(p[1]), "datum": dat, "multi": mul, "order": order, "doc": doc, "derived_after_evaluation": True}
        outs = []
        for which in ("derived", "prebuilt"):
            o = []
            for rp in (False, True):
                res.count("transitions")
                try:
                    if which == "derived":
                        q = base
                        for s in ([dat, mul] if order == "dm" else [mul, dat]):
                            if s is not None:
                                q = getattr(q, s)()
                    else:
                        q = obj
                    o.append(("ok", vsnap(q.get_data(D, return_paths=rp))))
                except BaseException as e:
                    o.append(("raises", type(e).__name__))
            outs.append(o)
        if outs[0] != outs[1]:
            res.violation("derived-after-evaluation:%s/%s" % (dat, mul), "%s derived from an already evaluated path object gives a "
                          "different result on %r than the same path built before any evaluation" % (T.show(pt), doc), case,
                          observed=outs[0], expected=outs[1])
            return False
        res.count("validated")
    return True


def check_case(res, pt, obj, combo, d, doc, sel, conc, key):
    dat, mul, order = combo
    res.count("evaluations")
    res.state(*key)
    case = {"path": T.path(pt[1]), "datum": dat, "multi": mul, "order": order, "doc": doc}
    # reference
    try:
        want = ref.select(pt, d, with_paths=False, sel=sel)
        want_p = ref.select(pt, d, with_paths=True, sel=sel)
        err = None
    except ref.DatumUndefined:
        err = "datum"
    except ref.MultipleMatches:
        err = "multiple"
    outs = []
    for rp in (False, True):
        res.count("transitions")
        try:
            outs.append(("ok", obj.get_data(d, return_paths=rp)))
        except BaseException as e:
            outs.append(("exc", e))
    if err == "datum":
        res.count("datum_undefined_not_judged")
        return True
    if err == "multiple":
        for kind, e in outs:
            if kind != "exc" or not isinstance(e, ValueError):
                res.violation("single:not-refused", "%s on %r has several matches but did not raise ValueError"
                              % (T.show(pt), doc), case, observed=repr(e), expected="ValueError")
                return False
        res.count("validated")
        res.count("nontrivial")
        return True
    for (kind, got), rp in zip(outs, (False, True)):
        if kind == "exc":
            res.violation("raises:%s:%s:%s/%s" % (type(got).__name__, shape(pt), dat, mul),
                          "%s.get_data(return_paths=%s) raised %r on %r" % (T.show(pt), rp, got, doc), case,
                          observed=repr(got), expected=want_p if rp else want)
            return False
    plain, withp = outs[0][1], outs[1][1]
    if not sel:
        exp = None if conc else []
        if plain != exp or withp != exp:
            res.violation("empty-selection:%s/%s" % (dat, mul), "%s on %r selects nothing but returned %r / %r"
                          % (T.show(pt), doc, plain, withp), case, observed=(plain, withp), expected=exp)
            return False
        if dat is None and mul is None and not other_entries_agree(res, pt, obj, d, doc, plain, withp, case):
            return False
        res.count("validated")
        return True
    single = conc or mul in ("first", "last", "single")
    # normalise to lists
    if single:
        plain_l, withp_l = [plain], [withp]
        want_l, want_pl = [want], [want_p]
    else:
        plain_l, withp_l, want_l, want_pl = plain, withp, want, want_p
    ok = (isinstance(plain_l, list) and isinstance(withp_l, list) and len(plain_l) == len(want_l)
          and len(withp_l) == len(want_l)
          and all(isinstance(x, tuple) and len(x) == 2 and isinstance(x[1], tuple) for x in withp_l))
    if ok:
        cmp = same_node if dat is None and pt[1] else same_value
        # (1) same values with and without paths, in order; equal to the reference
        ok = all(cmp(a, b[0]) for a, b in zip(plain_l, withp_l)) and all(cmp(a, w) for a, w in zip(plain_l, want_l))
    if not ok:
        res.violation("modifier:%s/%s/%s" % (dat, mul, order), "%s on %r returned the wrong values" % (T.show(pt), doc),
                      case, observed=(plain, withp), expected=(want, want_p))
        return False
    # (2) truthful, pairwise distinct paths
    cps = [x[1] for x in withp_l]
    if len(set(cps)) != len(cps):
        res.violation("paths-not-distinct", "%s on %r reported duplicate concrete paths" % (T.show(pt), doc), case,
                      observed=cps)
        return False
    for (v, cp), (wv, wcp) in zip(withp_l, want_pl):
        try:
            node = reach(d, cp)
            truthful = same_value(v, ref.apply_datum(dat, node)) if (dat is not None or not pt[1]) else (node is v or same_node(node, v))
        except Exception:
            truthful = False
        if not truthful or cp != wcp or not all(type(a) is type(b) for a, b in zip(cp, wcp)):
            res.violation("path-untruthful:%s/%s" % (dat, mul),
                          "%s on %r reported path %r for value %r" % (T.show(pt), doc, cp, v), case,
                          observed=withp, expected=want_p)
            return False
    # (3) the wrapper's own lookups (with a path object, with bare parts) give the same values and the same paths
    if dat is None and mul is None and not other_entries_agree(res, pt, obj, d, doc, plain, withp, case):
        return False
    res.count("validated")
    res.count("nontrivial")
    res.outcome((dat, mul, len(plain_l)))
    return True


def _same_out(a, b, with_paths, by_value):
    cmp = same_value if by_value else same_node
    def item(x, y):
        if with_paths:
            return isinstance(x, tuple) and isinstance(y, tuple) and len(x) == 2 and cmp(x[0], y[0]) and x[1] == y[1] and \
                all(type(i) is type(j) for i, j in zip(x[1], y[1]))
        return cmp(x, y)
    if isinstance(b, list):
        return isinstance(a, list) and len(a) == len(b) and all(item(x, y) for x, y in zip(a, b))
    if b is None:
        return a is None
    return item(a, b)


def other_entries_agree(res, pt, obj, d, doc, plain, withp, case):
    from valida.data import Data
    parts = [T.build_part(x) for x in pt[1]]
    entries = [("Data.get(path)", lambda rp: Data(d).get(obj, return_paths=rp))]
    if parts:
        entries.append(("Data.get(*parts)", lambda rp: Data(d).get(*parts, return_paths=rp)))
    for name, fn in entries:
        for rp, want in ((False, plain), (True, withp)):
            res.count("transitions")
            try:
                got = fn(rp)
            except BaseException as e:
                res.violation("entry-raises:%s:%s" % (name, type(e).__name__), "%s(return_paths=%s) raised %r for %s on %r"
                              % (name, rp, e, T.show(pt), doc), case, observed=repr(e), expected=want)
                return False
            if not _same_out(got, want, rp, by_value=not pt[1]):
                res.violation("entry-differs:%s:paths=%s" % (name, rp), "%s(return_paths=%s) and get_data disagree for %s on %r"
                              % (name, rp, T.show(pt), doc), case, observed=got, expected=want)
                return False
    return True
