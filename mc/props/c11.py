"""C11 -- conditions survive the JSON-like round trip.

T-space: the C11 fragment (all callables on value/key/index, length with numeric comparisons,
dtype with equality/membership; JSON-like, type and data-path arguments, literal mappings
that look like path specs) and every and/or/xor tree over an 8-leaf pool.
Oracle: pure JSON (type-exact through json.dumps/loads), equal, same class, same behaviour,
idempotent re-serialisation.
"""
import itertools
import json

from mc import terms as T, gen
from mc.alphabet import ARG18, TYPES7
from mc.enc import fresh
from mc.run import Result
from mc.snapshot import vsnap
from mc.props import c01

from valida.conditions import ConditionLike

META = {
    "rule": "every leaf of the C11 fragment (classes x callables x JSON-like / type / data-path argument tuples, "
            "tuples excluded) and every and/or/xor tree of depth <= d over an 8-leaf pool; a case is one term, "
            "serialised, pushed through json text, rebuilt, compared on 2-3 probe documents and re-serialised; "
            "non-trivial = all five comparisons were made",
    "assumptions": ["arguments are JSON-representable values (lists, never tuples), the 7 known type objects for type "
                    "conditions, or data paths; literal mapping keys containing the escape code '\\path' itself are "
                    "outside the fragment",
                    "a type argument without a spec name (tuple, bytes, complex, type, set): serialising may refuse "
                    "(KeyError); what it returns is judged like everything else"],
    "bounds": {"quick": {"tree_depth": 2}, "thorough": {"tree_depth": 3}},
}

L = T.leaf
P = T.path
PATH_ARGS = [
    ("$path", P((("prim", "b"),))),
    ("$path", P((("prim", "b"), ("prim", 0)))),
    ("$path", P((("map", None, None, None),))),
    ("$path", P((("prim", "lst"), ("list", None, gen.V_EQ1, None)), None, "first")),
    ("$path", P((("prim", "b"),), "length")),
    ("$path", P((("map", L("Key", "in_", ["a", "b"]), None, None),), "dtype", "all", "md")),
    ("$path", P((("mol", ("lit", "m"), ("lit", 0), None, None), ("prim", "x")), "map_keys", "single")),
    ("$path", P((("prim", "m"),), "map_values")),
    ("$path", P(())),
    ("$path", P((("prim", "cfg"), ("map", ("lit", 1), None, None)))),
    ("$path", P((("list", ("lit", 0), None, None), ("map", ("lit", 1.5), None, "L")))),
]
PATHLIKE = [{"path": ["b"]}, {"path.length": ["b"]}, {"Path": ["b"]}, {"path": 1, "x": 2}, {"a": {"path": ["b"]}},
            {"pathological": 1}, [{"path": ["b"]}, 1], {"path": "ab"}, {"Path.length": {"k": 1}}, {"path": None}, {"path.first": 3}]
SRC = {"a": 1, "b": [1, 2], "m": {"x": {"k": 1}}, "lst": [0, 1, 1], "lo": 0}
SRC2 = {"a": "a", "b": 2, "m": {"x": [1, 2]}, "lst": [1], "lo": 1, "cfg": {1: "b"}}


def fragment():
    out = []
    for cls in ("Value", "Key", "Index"):
        for call in T.CALLABLES[cls]:
            for t in c01.leaf_terms(cls, call):
                if ok_args(t):
                    out.append(t)
    num_calls = ["equal_to", "not_equal_to", "less_than", "greater_than", "less_than_or_equal_to",
                 "greater_than_or_equal_to", "in_", "not_in", "in_range", "not_in_range", "equal_to_approx",
                 "factor_of", "has_factor", "truthy", "falsy", "null"]
    for cls in ("ValueLength", "KeyLength"):
        for call in num_calls:
            for t in c01.leaf_terms(cls, call):
                if ok_args(t) and all(isinstance(a, (int, float, list)) and not isinstance(a, bool) or a is None
                                      for a in t[3]):
                    out.append(t)
    for cls in ("ValueDataType", "KeyDataType"):
        for call in ("equal_to", "not_equal_to"):
            for ty in TYPES7:
                out.append(L(cls, call, ty))
        for call in ("in_", "not_in"):
            for tys in ([int], [int, str], [dict, list, bool], list(TYPES7), []):
                out.append(L(cls, call, tys))
    for cls in ("ValueDataType", "KeyDataType"):
        for call in ("in_", "not_in"):
            out.append(L(cls, call, [int, str, int]))
            out.append(L(cls, call, [dict, dict]))
    for call in ("is_instance", "keys_is_instance"):
        out.append(L("Value", call, list, dict, list))
        out.append(L("Value", call, str, str))
        for tys in ((), (int,), (int, str), (dict, list, bool, float)):
            out.append(L("Value", call, *tys))
    # data-path arguments in every argument position
    for pa in PATH_ARGS:
        out.append(L("Value", "equal_to", pa))
        out.append(L("Value", "in_", pa))
        out.append(L("Value", "in_", [pa, 5]))
        out.append(L("Value", "less_than", pa))
        out.append(L("Value", "keys_contain", pa))
        out.append(L("Value", "in_range", lower=pa, upper=5))
        out.append(L("Value", "in_range", 0, pa))
        out.append(L("Value", "equal_to_approx", value=pa))
        out.append(L("Value", "keys_contain_any_of", pa, "z"))
        out.append(L("Value", "items_contain", q=pa, r=1))
        out.append(L("Key", "equal_to", pa))
        out.append(L("Index", "less_than", pa))
        out.append(L("ValueLength", "equal_to", pa))
    for lit in PATHLIKE:
        out.append(L("Value", "equal_to", lit))
        out.append(L("Value", "in_", [lit, 1] if not isinstance(lit, list) else lit))
        out.append(L("Value", "items_contain", q=lit))
        out.append(L("Value", "not_equal_to", lit))
    return out


def ok_args(t):
    def bad(a):
        if isinstance(a, (tuple, type)):
            return True
        if isinstance(a, list):
            return any(bad(i) for i in a)
        if isinstance(a, dict):
            return any(not isinstance(k, str) or bad(v) for k, v in a.items())
        return False
    _, cls, call, args, kwargs = t
    if call in ("is_instance", "keys_is_instance"):
        return False
    return not any(bad(a) for a in args) and not any(bad(v) for _, v in kwargs)


POOL8 = [T.NULL, L("Value", "less_than", 2), L("Value", "in_", [1, "a"]), L("ValueDataType", "equal_to", dict),
         L("ValueLength", "greater_than", 1), L("Key", "in_", ["a", "b"]), L("Index", "less_than", 2),
         L("Value", "equal_to", PATH_ARGS[0])]


def trees(depth):
    cur = list(POOL8)
    for _ in range(depth - 1):
        nxt = list(cur)
        for op in ("and", "or", "xor"):
            for a, b in itertools.product(cur, repeat=2):
                k = T.cond_kinds(a) | T.cond_kinds(b)
                if "key" in k and "index" in k:
                    continue
                nxt.append((op, a, b))
        cur = nxt
    return [t for t in cur if t[0] in ("and", "or", "xor")]


_c = {}


def _terms(tier):
    if tier not in _c:
        depth = 2 if tier == "quick" else 3
        ts = trees(depth)
        if depth == 3:
            # depth-3 trees: every shape over the pool is ~10^5 terms; keep those whose operands are
            # depth-2 trees over a 4-leaf sub-pool plus all (leaf, tree) / (tree, leaf) pairs
            sub = [POOL8[0], POOL8[1], POOL8[3], POOL8[7]]
            d2 = [(op, a, b) for op in ("and", "or", "xor") for a in sub for b in sub]
            ts = trees(2)
            for op in ("and", "or", "xor"):
                for a in d2:
                    for b in d2:
                        ts.append((op, a, b))
                for a in POOL8:
                    k = T.cond_kinds(a)
                    for b in d2:
                        ts.append((op, a, b))
                        ts.append((op, b, a))
        a, b, c3, d = POOL8[1], POOL8[2], POOL8[3], POOL8[4]
        for op in ("and", "or", "xor"):
            other = "or" if op != "or" else "and"
            ts += [(op, a, (op, b, c3)), (op, (op, a, b), (op, c3, d)), (op, a, (op, b, (op, c3, d))), (op, (op, (op, a, b), c3), d),
                   (op, a, (other, b, c3)), (other, (op, a, b), (op, c3, d)), (op, T.NULL, (op, a, (op, b, T.NULL)))]
        # combinations that repeat one callable with two different arguments
        for kind in ("value", "key", "index"):
            ts += gen.repeated_leaf_pairs(kind)
        _c[tier] = fragment() + ts
    return _c[tier]


def prepare(tier):
    _terms(tier)


# H-space for hidden (de)serialiser state: conditions whose data-path arguments share parts but differ in modifiers, in
# 1 / 1.0 / '1' parts, or in having no parts at all; each unit is a pristine process in which term i is round-tripped first
def confusable():
    ps = [P((("prim", "a"), ("prim", "b"))), P((("prim", "a"), ("prim", "b")), "length"), P((("prim", "a"), ("prim", "b")), "dtype"),
          P((("prim", "a"), ("prim", 1))), P((("prim", "a"), ("prim", 1.0))), P((("prim", "a"), ("prim", "1"))),
          P(()), P((), "length"), P((), "map_keys"), P((("prim", 1),)), P((("prim", True),)),
          P((("map", None, None, None), ("prim", "b")), None, "first"), P((("map", None, None, None), ("prim", "b")), "length", "first")]
    out = []
    for p in ps:
        a = ("$path", p)
        out += [L("Value", "equal_to", a), L("Value", "in_", [a, 1]), L("Value", "in_range", lower=0, upper=a)]
    out += [L("Value", "equal_to_approx", 1.5), L("Value", "equal_to_approx", 1.5, 0.25), L("Value", "equal_to", {"path": ["a", "b"]})]
    return out


# type arguments that have no name in specs (only the seven JSON-ish types have one): serialising may refuse, but
# what it returns must be pure JSON all the same
UNNAMED = [L("Value", "is_instance", tuple), L("Value", "is_instance", int, bytes), L("Value", "keys_is_instance", complex),
           L("ValueDataType", "is_instance", type), L("ValueDataType", "equal_to", tuple), L("ValueDataType", "in_", [int, tuple]),
           L("KeyDataType", "not_in", [set]), L("ValueDataType", "in_range", lower=tuple, upper=2),
           ("and", L("Value", "is_instance", int, tuple), L("Value", "truthy")), ("or", L("Value", "truthy"), L("Value", "keys_is_instance", tuple))]


def units(tier):
    return gen.chunks(len(_terms(tier)), 60) + [["H", i] for i in range(len(confusable()))] + [["UNNAMED"]]


def run_unit(unit, tier):
    res = Result()
    if unit[0] == "H":
        pool = confusable()
        order = [unit[1]] + list(range(len(pool)))
        for n, j in enumerate(order):
            check_case(res, pool[j], key=("H", unit[1], n), history=[pool[k] for k in order[:n]])
        res.sample({"term": pool[unit[1]], "history": []})
        return res
    if unit[0] == "UNNAMED":
        for i, t in enumerate(UNNAMED):
            check_case(res, t, key=("UNNAMED", i), may_refuse=True)
        return res
    ts = _terms(tier)
    for i in range(unit[0], unit[1]):
        check_case(res, ts[i], key=(i,))
    res.sample({"term": ts[unit[0]]})
    return res


def replay(case):
    res = Result()
    for t in case.get("history", []):
        check_case(Result(), t, key=("replay-h",))
    check_case(res, case["term"], key=("replay",), may_refuse=case["term"] in UNNAMED)
    return list(res.violations.values())


def name_of(t):
    if t[0] == "leaf":
        a = "path-arg" if "$path" in repr(t[3:]) else ("pathlike-literal" if "path" in repr(t[3:]).lower() else "")
        return "%s.%s%s" % (t[1], t[2], ":" + a if a else "")
    return "tree"


def probe_docs(t):
    kinds = T.cond_kinds(t)
    docs = []
    if "index" not in kinds:
        docs += [{"a": 1, "b": [1, 2], "c": {"k": 1}, 1: "a", "d": {"path": ["b"]}, "e": 2, "f": "b"}]
    if "key" not in kinds:
        docs += [[1, 2, [1, 2], {"k": 1}, "a", {"path": ["b"]}, None, 0, "b", {"a": {"path": ["b"]}}]]
    return docs


def check_case(res, t, key, history=None, may_refuse=False):
    res.count("evaluations")
    res.state(*key)
    case = {"term": t}
    if history:
        case["history"] = history
    nm = name_of(t)
    try:
        c = T.build_cond(t)
    except TypeError:
        res.note("unbuildable term")
        return
    res.count("transitions")
    try:
        js = c.to_json_like()
    except BaseException as e:
        if may_refuse and isinstance(e, (KeyError, TypeError, ValueError, NotImplementedError)):
            res.count("refused_unnamed_type")
            res.outcome("refused")
            return
        res.violation("serialise:%s:%s" % (type(e).__name__, nm), "%s.to_json_like() raised %r" % (T.show(t), e), case,
                      observed=repr(e), expected="JSON-compatible data")
        return
    try:
        back = json.loads(json.dumps(js))
        pure = vsnap(back) == vsnap(js)
    except (TypeError, ValueError) as e:
        back, pure = None, False
    if not pure:
        res.violation("not-json:%s" % nm, "%s.to_json_like() = %r is not pure JSON-compatible data" % (T.show(t), js),
                      case, observed=repr(js), expected="survives json.dumps/loads unchanged")
        return
    res.count("transitions")
    try:
        c2 = ConditionLike.from_json_like(back)
    except BaseException as e:
        res.violation("rebuild:%s:%s" % (type(e).__name__, nm), "from_json_like(%r) raised %r" % (js, e), case,
                      observed=repr(e), expected=T.show(t))
        return
    if type(c2) is not type(c) or not (c2 == c) or not (c == c2):
        res.violation("unequal:%s" % nm, "%s round-trips through %r to the unequal %r" % (T.show(t), js, c2), case,
                      observed=repr(c2), expected=repr(c))
        return
    for doc in probe_docs(t):
        res.count("transitions", 2)
        try:
            a = c.filter(fresh(doc), source_data=fresh(SRC)).result
        except BaseException as e:
            a = "raises " + type(e).__name__
        try:
            b = c2.filter(fresh(doc), source_data=fresh(SRC)).result
        except BaseException as e:
            b = "raises " + type(e).__name__
        if a != b:
            res.violation("behaviour:%s" % nm, "%s and its round-tripped copy filter %r differently" % (T.show(t), doc),
                          case, observed=b, expected=a)
            return
        res.outcome(tuple(a) if isinstance(a, list) else a)
    res.count("transitions")
    try:
        js2 = c2.to_json_like()
    except BaseException as e:
        res.violation("reserialise:%s:%s" % (type(e).__name__, nm), "re-serialising raised %r" % (e,), case, observed=repr(e))
        return
    if vsnap(js2) != vsnap(js):
        res.violation("not-idempotent:%s" % nm, "re-serialising the rebuilt condition gives different data", case,
                      observed=js2, expected=js)
        return
    # H flavour: the condition has now been *used* (filtered with source data).  It still serialises to the same data,
    # still equals a freshly built one, and resolves its path arguments against whatever document it is given next
    res.count("transitions", 3)
    try:
        js3 = c.to_json_like()
        fresh_c = T.build_cond(t)
        eq3 = (c == fresh_c) and (fresh_c == c)
        outs = []
        for doc in probe_docs(t):
            for x in (c, fresh_c):
                try:
                    outs.append(x.filter(fresh(doc), source_data=fresh(SRC2)).result)
                except BaseException as e:
                    outs.append("raises " + type(e).__name__)
    except BaseException as e:
        res.violation("after-use:%s:%s" % (type(e).__name__, nm), "serialising / comparing %s after it was used raised %r" % (T.show(t), e),
                      case, observed=repr(e))
        return
    if vsnap(js3) != vsnap(js) or not eq3 or outs[0::2] != outs[1::2]:
        res.violation("after-use:%s" % nm, "after filtering once with source data, %s no longer serialises / compares / filters like a "
                      "freshly built one" % T.show(t), case, observed=(js3, eq3, outs[0::2]), expected=(js, True, outs[1::2]))
        return
    res.count("validated")
    res.count("nontrivial")
