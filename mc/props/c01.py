"""C01 -- a single condition filters every item to its documented meaning, never aborting.

T-space: every leaf condition (7 classes x their callables x argument alphabets) x every
single-item container over V/K and every small multi-item container; oracle = reference
meaning (exact on well-typed arguments, totality + shape otherwise) plus the partition
invariants.  See DESIGN.md section 4, C01.
"""
import itertools

from mc import terms as T, ref
from mc.alphabet import V, K, V8, K5, ARG18, ARG6, KEYS5, TYPES7
from mc.enc import fresh
from mc.run import Result
from mc.snapshot import vsnap

import valida
from valida.data import Data

META = {
    "rule": "every leaf term (class x callable x argument tuple) x every container of the family; "
            "a case is one (leaf, container) pair; non-trivial = the container kind applies to the "
            "leaf and the observed result vector was compared item by item with the reference "
            "meaning (exact oracle); distinct by construction (term index x document index)",
    "assumptions": [
        "CPython 3.12 semantics of ==, <, in, %, len, isinstance on JSON types (the reference "
        "model re-derives them by case analysis)",
        "ill-typed argument values and vacuous key lists on non-mappings, which the case analysis "
        "leaves open, are judged by the comparison as documented (ref._PY: one Python expression per "
        "callable, transcribed from the documentation; TypeError / AttributeError / ZeroDivisionError / "
        "ValueError = 'not defined' = does not satisfy); totality and shape only where that raises "
        "anything else",
        "after the first judgement each live container is edited in place (same kind and size) into the "
        "next container of the family and filtered again by the same condition object",
    ],
    "bounds": {
        "quick": {"containers": "single-item over all of V (29) and K (11); lists of 2 over V8; "
                                "mappings of 2 entries over K5 x 3 values"},
        "thorough": {"containers": "quick + lists of 3 over V8, mappings of 3 entries over K5 x 3 values"},
    },
}

TYPE_ARGS = [int, float, str, list, dict, bool]


def leaf_terms(cls, call):
    kind, names = T.SIG[call]
    dtype_cls = T.PREP[cls] == "dtype"
    out = []
    if kind == "none":
        out.append(T.leaf(cls, call))
    elif kind == "one":
        vals = list(ARG18)
        if dtype_cls or call in ("equal_to", "not_equal_to", "in_", "not_in"):
            vals += TYPES7 + [[int, str], [dict, list], [bool]]
        if call in ("in_", "not_in"):
            vals += ["a1", [1, 2, 3], ["a", "b"], [None], [[1]], {"a": 1, 1: 2}, [0.0], [True], (1, "a")]
        if call in ("keys_contain_at_least_one_of", "keys_contain_at_most_one_of"):
            vals = [[], ["a"], ["a", "b"], ["a", 1], ["b", None], [["x"]], 5, "ab", None]
        for v in vals:
            out.append(T.leaf(cls, call, v))
    elif kind == "multi":
        if call in ("in_range", "not_in_range"):
            for a, b in itertools.product(ARG6 + [True, -1], repeat=2):
                out.append(T.leaf(cls, call, a, b))
        elif call == "equal_to_approx":
            for a in ARG6 + [True, -1]:
                out.append(T.leaf(cls, call, a))
                for tol in (0.5, 1, 0, "a", None):
                    out.append(T.leaf(cls, call, a, tol))
        else:  # N_of family
            for N in (0, 1, 2, "a"):
                for keys in ([], ["a"], ["a", "b"], ["a", 1], ["b", None], [["x"]], 5):
                    out.append(T.leaf(cls, call, N, keys))
    elif kind == "varpos":
        if call in ("is_instance", "keys_is_instance"):
            for n in range(3):
                for tup in itertools.product(TYPE_ARGS, repeat=n):
                    out.append(T.leaf(cls, call, *tup))
            out.append(T.leaf(cls, call, 1))
            out.append(T.leaf(cls, call, "a"))
        else:
            for n in range(3):
                for tup in itertools.product(KEYS5, repeat=n):
                    out.append(T.leaf(cls, call, *tup))
    elif kind == "varkw":
        vals = [1, True, "x", [1], None]
        out.append(T.leaf(cls, call))
        for k in ("a", "b"):
            for v in vals:
                out.append(T.leaf(cls, call, **{k: v}))
        for va in vals:
            for vb in vals:
                out.append(T.leaf(cls, call, a=va, b=vb))
    return out


def singles():
    return [[v] for v in V] + [{k: 1} for k in K] + [{"a": v} for v in V]


_MV = [1, "a", {"a": 1}]


def multis(tier):
    out = [list(t) for t in itertools.product(V8, repeat=2)]
    for keys in itertools.permutations(K5, 2):
        for vals in itertools.product(_MV, repeat=2):
            out.append(dict(zip(keys, vals)))
    if tier == "thorough":
        out += [list(t) for t in itertools.product(V8, repeat=3)]
        for keys in itertools.permutations(K5, 3):
            for vals in itertools.product(_MV, repeat=3):
                out.append(dict(zip(keys, vals)))
    return out


def prepare(tier):
    _docs(tier)


def units(tier):
    return [[cls, call] for cls in T.CLASSES for call in T.CALLABLES[cls]]


_docs_cache = {}


def _docs(tier):
    if tier not in _docs_cache:
        _docs_cache[tier] = (singles(), multis(tier))
    return _docs_cache[tier]


def run_unit(unit, tier):
    cls, call = unit
    res = Result()
    sing, mult = _docs(tier)
    for ti, t in enumerate(leaf_terms(cls, call)):
        for di, doc in enumerate(sing):
            check_case(res, t, doc, full=True, key=(cls, call, ti, 0, di), nxt=_next(sing, di))
        for di, doc in enumerate(mult):
            check_case(res, t, doc, full=False, key=(cls, call, ti, 1, di), nxt=_next(mult, di))
        check_spec_built(res, t, sing, key=(cls, call, ti, "spec"))
        if ti == 0:
            res.sample({"term": t, "doc": sing[0]})
    return res


def check_spec_built(res, t, docs, key):
    """The same leaf written as a spec and loaded by the parser is the same condition: it filters every single-item
    container like the DSL-built one (terms without a spec spelling - tuple / type-object corner cases - are skipped)."""
    from mc import specs as S
    from valida.conditions import ConditionLike
    try:
        spec = S.cond_spec(t)
        built = T.build_cond(t)
        parsed = ConditionLike.from_spec(spec)
    except BaseException:
        return
    res.count("evaluations")
    res.state(*key)
    for doc in docs:
        res.count("transitions", 2)
        try:
            a = built.filter(fresh(doc)).result
        except BaseException:
            continue
        try:
            b = parsed.filter(fresh(doc)).result
        except BaseException as e:
            b = "raises " + type(e).__name__
        if a != b:
            res.violation("spec-built:%s.%s" % (t[1], t[2]), "%s loaded from its spec %r filters %r differently from the DSL-built condition"
                          % (T.show(t), spec, doc), {"term": t, "doc": doc, "spec_built": True}, observed=b, expected=a)
            return


def _next(docs, di):
    """The following document of the family when it is a container of the same kind and size (the
    live document is then edited in place into it and filtered again)."""
    if di + 1 < len(docs):
        a, b = docs[di], docs[di + 1]
        if type(a) is type(b) and len(a) == len(b):
            return b
    return None


def replay(case):
    res = Result()
    if case.get("spec_built"):
        check_spec_built(res, case["term"], [case["doc"]], key=("replay",))
        return list(res.violations.values())
    check_case(res, case["term"], case["doc"], full=True, key=("replay",), nxt=case.get("then"))
    return list(res.violations.values())


def _same_items(a, b):
    """Same items in the same order: identity for containers, type-exact equality for scalars."""
    if len(a) != len(b):
        return False
    for x, y in zip(a, b):
        if isinstance(x, (list, dict)) or isinstance(y, (list, dict)):
            if x is not y:
                return False
        elif type(x) is not type(y) or x != y:
            return False
    return True


def check_case(res, t, doc, full, key, nxt=None):
    _, cls, call, args, kwargs = t
    name = "%s.%s" % (cls, call)
    res.count("evaluations")
    res.state(*key)
    case = {"term": t, "doc": doc}
    if nxt is not None:
        case["then"] = nxt
    try:
        cond = T.build_cond(t)
    except Exception as e:  # the DSL cannot build it
        res.count("transitions")
        # only a violation when the arguments are those the callable's comparison documents
        well = ref.exact(call, None, args, kwargs) and len(args) + len(kwargs) >= (
            len(T.SIG[call][1]) if T.SIG[call][0] == "multi" and call != "equal_to_approx" else 0)
        if well and isinstance(e, TypeError):
            res.violation("build:%s:%s" % (name, type(e).__name__),
                          "the DSL cannot build %s although the comparison takes these arguments: %r"
                          % (T.show(t), e), case, observed=repr(e), expected="a condition")
        else:
            res.note("unbuildable ill-typed leaf")
        return
    d = fresh(doc)
    is_list = isinstance(d, list)
    kind = T.KIND[cls]
    items = ref.items_of(d)
    before = vsnap(d)
    res.count("transitions")
    try:
        fd = cond.filter(d)
    except TypeError as e:
        if (kind == "key" and is_list) or (kind == "index" and not is_list):
            res.count("kind_refusals")  # documented container-kind refusal: executed, not judged
            return
        res.violation("raises:TypeError:%s" % name, "filter raised %r for %s on %r" % (e, T.show(t), doc),
                      case, observed=repr(e), expected="one boolean per item")
        return
    except Exception as e:
        res.violation("raises:%s:%s" % (type(e).__name__, name),
                      "filter raised %r for %s on %r" % (e, T.show(t), doc), case,
                      observed=repr(e), expected="one boolean per item")
        return
    if (kind == "key" and is_list) or (kind == "index" and not is_list):
        res.violation("no-refusal:%s" % name, "%s filtered a %s without refusing" %
                      (T.show(t), type(d).__name__), case)
        return
    result = fd.result
    # ---- shape
    if len(result) != len(items) or not all(r is True or r is False for r in result):
        res.violation("shape:%s" % name, "result is not one bool per item: %r" % (result,), case,
                      observed=result, expected="%d booleans" % len(items))
        return
    # ---- meaning
    exp = [ref.leaf_holds(t, k, v) for k, v in items]
    all_exact = True
    for i, ((want, ex), got) in enumerate(zip(exp, result)):
        if ex:
            if got is not want:
                res.violation("meaning:%s" % name,
                              "%s on item %r (key/index %r): implementation says %r, documented meaning %r"
                              % (T.show(t), items[i][1], items[i][0], got, want), case,
                              observed=result, expected=[w for w, _ in exp])
                return
        else:
            all_exact = False
            # an argument outside the case analysis: the comparison as documented, expression
            # for expression, an undefined comparison counting as "does not satisfy"
            py = ref.pythonic_holds(t, items[i][0], items[i][1])
            if py is not None:
                res.count("oracle_documented_expression")
                if got is not py:
                    res.violation("meaning-ill-typed:%s" % name,
                                  "%s on item %r (key/index %r): implementation says %r, the documented "
                                  "comparison evaluates to %r" % (T.show(t), items[i][1], items[i][0], got, py),
                                  case, observed=result, expected=py)
                    return
    if all_exact:
        res.count("oracle_exact")
        res.count("validated")
        res.count("nontrivial")
    else:
        res.count("oracle_totality")
    res.outcome((name, tuple(result)) if len(result) == 1 else tuple(result))
    # ---- partition
    try:
        data, keys, fails = fd.data, fd.keys, fd.failure_indices
    except Exception as e:
        res.violation("raises:%s:view:%s" % (type(e).__name__, name), "view accessor raised %r" % (e,), case)
        return
    res.count("transitions", 3)
    want_data = [v for (k, v), r in zip(items, result) if r]
    want_keys = [k for (k, v), r in zip(items, result) if r]
    want_fail = [i for i, r in enumerate(result) if not r]
    if not _same_items(list(data), want_data) or not _same_items(list(keys), want_keys) or list(fails) != want_fail:
        res.violation("partition:%s" % name, "data/keys/failure_indices are not the partition induced by result",
                      case, observed=(data, keys, fails), expected=(want_data, want_keys, want_fail))
        return
    if vsnap(d) != before:
        res.violation("mutates:%s" % name, "filter changed the document", case)
        return
    # ---- the other entry points agree
    try:
        res.count("transitions", 2)
        r2 = Data(d).filter(cond).result
        if r2 != result:
            res.violation("entry:Data.filter:%s" % name, "Data(d).filter(c) disagrees with c.filter(d)", case,
                          observed=r2, expected=result)
            return
        ta = cond.test_all(d)
        if ta is not all(result):
            res.violation("entry:test_all:%s" % name, "test_all disagrees with all(filter.result)", case,
                          observed=ta, expected=all(result))
            return
        if full and len(items) == 1:
            res.count("transitions")
            if kind == "value":
                tv = cond.test(items[0][1])
            elif kind == "key":
                tv = cond.test(d)
            else:
                tv = result[0] if is_list and items[0][0] == 0 else None
            if kind != "index" and tv is not result[0]:
                res.violation("entry:test:%s" % name, "test disagrees with filter", case, observed=tv,
                              expected=result[0])
                return
    except Exception as e:
        res.violation("raises:%s:entry:%s" % (type(e).__name__, name),
                      "an alternative entry point raised %r" % (e,), case, observed=repr(e))
        return
    # ---- the same live container, edited in place by its owner (same size), filtered again by the
    # same condition object: the answer is the meaning on what the container holds *now*
    if nxt is None:
        return
    new = fresh(nxt)
    if is_list:
        d[:] = new
    else:
        d.clear()
        d.update(new)
    items2 = ref.items_of(d)
    res.count("transitions")
    res.count("refiltered_after_edit")
    try:
        fd2 = cond.filter(d)
        got2, data2, keys2 = list(fd2.result), list(fd2.data), list(fd2.keys)
    except Exception as e:
        res.violation("raises:%s:after-edit:%s" % (type(e).__name__, name),
                      "filtering the edited container raised %r" % (e,), case, observed=repr(e))
        return
    want2 = []
    for k, v in items2:
        w, ex = ref.leaf_holds(t, k, v)
        if not ex:
            w = ref.pythonic_holds(t, k, v)
        want2.append(w)
    ok = len(got2) == len(want2) and all(w is None or g is w for g, w in zip(got2, want2))
    if ok:
        ok = (_same_items(data2, [v for (k, v), r in zip(items2, got2) if r])
              and _same_items(keys2, [k for (k, v), r in zip(items2, got2) if r]))
    if not ok:
        res.violation("stale-after-edit:%s" % name,
                      "%s filtered %r, the container was then edited in place to %r and filtered again: the "
                      "second answer is not the meaning on the current items" % (T.show(t), doc, nxt), case,
                      observed=(got2, data2, keys2), expected=want2)
