"""C16 -- parsing a spec does not change the spec; re-parsing gives the same object.

H-space: state = (one spec structure, the objects parsed from it so far); transitions = parse
the *same structure object* again through each applicable entry point; all histories up to
depth 3.  Invariants: the spec's type-exact, identity-aware snapshot never changes (exactly
one reachable spec state); parse n == parse 1 (and is structurally identical); objects parsed
earlier keep their snapshot after later parses.
"""
import itertools

from mc import terms as T, gen, specs as S
from mc.enc import fresh
from mc.run import Result
from mc.snapshot import snap, vsnap
from mc.props import c09, c10, c11

from valida.conditions import ConditionLike
from valida.datapath import DataPath, ContainerValue
from valida.rules import Rule
from valida.schema import Schema

META = {
    "rule": "every well-formed spec of the C09 / C10 / C11 spaces (condition spellings incl. data-path and escaped "
            "'\\\\path' arguments, part specs in long / shorthand / condition forms, path specs, rule specs with every "
            "cast and doc shape, schema rule lists) x every sequence of <= depth parses of the same structure object "
            "through its entry points; state = snapshot of the spec (must remain the single initial state); "
            "non-trivial = history of >= 2 parses whose results were compared",
    "assumptions": ["sharing of immutable or never-written sub-structures between spec and parsed object is not a violation "
                    "by itself; only an observable change of the spec or of an earlier object is"],
    "bounds": {"quick": {"history_depth": 2}, "thorough": {"history_depth": 3}},
    "technique": "stateless exploration of all re-parse histories of one shared spec structure (explicit snapshots as "
                 "the single-state invariant)",
}

L = T.leaf
ENTRY = {
    "cond": [("ConditionLike.from_spec", lambda s: ConditionLike.from_spec(s)),
             ("ConditionLike.from_json_like", lambda s: ConditionLike.from_json_like(s))],
    "part": [("ContainerValue.from_spec", lambda s: ContainerValue.from_spec(s)),
             ("DataPath.from_part_specs(s)", lambda s: DataPath.from_part_specs(s)),
             ("DataPath.from_part_specs('a', s)", lambda s: DataPath.from_part_specs("a", s))],
    "path": [("DataPath.from_spec", lambda s: DataPath.from_spec(s)),
             ("DataPath.from_json_like", lambda s: DataPath.from_json_like(s))],
    "parts": [("DataPath.from_part_specs(*s)", lambda s: DataPath.from_part_specs(*s))],
    "rule": [("Rule.from_spec", lambda s: Rule.from_spec(s)), ("Rule.from_json_like", lambda s: Rule.from_json_like(s))],
    "rules": [("Schema.from_json_like", lambda s: Schema.from_json_like(s)),
              ("Schema.init_rules", lambda s: Schema.init_rules(s))],
}


def cond_specs(tier):
    out = []
    for cls in T.CLASSES:
        for call in T.CALLABLES[cls]:
            type_names = T.PREP[cls] == "dtype" or call in ("is_instance", "keys_is_instance")
            ts = c09.leaf_terms(cls, call, "quick")
            for ti, t in enumerate(ts[:6] if tier == "quick" else ts):
                if c09.dtype_str_arg(t):
                    continue
                keys = S.key_spellings(cls, call, full=False)
                for v in S.value_spellings(t, type_names):
                    out.append({keys[0]: v})
    # data-path and path-like arguments (C11 space), nested combinations
    for t in c11.fragment():
        if "$path" in repr(t) or "path" in repr(t[3:]).lower():
            out.append(S.cond_spec(t))
    for lit in ({"\\path": ["b"]}, {"\\path.length": ["b"]}, {"\\Path": ["b"]}):
        out.append({"value.equal_to": dict(lit)})
        out.append({"value.in": [dict(lit), 1]})
        out.append({"value.items_contain": {"q": dict(lit), "r": {"path": ["b"]}}})
    for _t, sp in S.litmap_cases():     # literal mappings with 'path' keys: every escaped / unescaped spelling and position
        out.append(sp)
    from mc.props.c02 import trees, spec_of
    for t in trees(2):
        k = T.cond_kinds(t)
        if not ("key" in k and "index" in k):
            out.append(spec_of(t))
    out.append({"and": [{"or": [{"value.lt": 1}, {"and": [{"value.in": [1, {"path": ["a"]}]}, {}]}]}, {"value.dtype.in": ["int", "STR"]}]})
    # a not-a-number argument (YAML `.nan`): the one value that does not equal itself
    nan = float("nan")
    out += [{"value.equal_to": nan}, {"value.in_range": [nan, 2.5]}, {"value.in": [1, nan]}, {"key.equal_to": nan},
            {"value.equal_to_approx": {"value": nan, "tolerance": 0.5}}, {"value.equal_to_approx": {"value": 1, "tolerance": nan}},
            {"value.equal_to_approx": [1.5, nan]}, {"value.in_range": {"lower": 0, "upper": nan}}]
    # argument lists that repeat an item / hold equal items of different type (nested one level below the argument mapping)
    for call in ("keys_contain_n_of", "keys_contain_at_least_n_of", "keys_contain_at_most_n_of"):
        out += [{"value.%s" % call: {"N": 1, "keys": ["a", "a", "b"]}}, {"value.%s" % call: [2, ["a", "b", "a", 1, True, 1.0]]}]
    out += [{"value.keys_contain_at_least_one_of": ["a", "a"]}, {"value.in": [1, 1, True, 1.0, [1], [1]]}, {"value.allowed_keys": ["a", "b", "a"]},
            {"value.is_instance": ["int", "int", "str"]}, {"value.dtype.in": ["int", "INT", "int"]}]
    # nested combinations, the shapes to_json_like writes for (a op b) op c, a op (b op c), (a op b) op (c op d), with the
    # same and with different operators, 2-4 operands per list
    a, b, c, d = {"value.lt": 1}, {"value.gt": -5}, {"value.dtype.eq": "int"}, {"value.in": [1, 2]}
    for op in ("and", "or", "xor"):
        for op2 in ("and", "or", "xor"):
            out.append({op: [{op2: [dict(a), dict(b)]}, dict(c)]})
            out.append({op: [dict(a), {op2: [dict(b), dict(c)]}]})
            out.append({op: [{op2: [dict(a), dict(b)]}, {op2: [dict(c), dict(d)]}]})
            out.append({op: [{op2: [{op: [dict(a), dict(b)]}, dict(c)]}, dict(d)]})
        out.append({op: [{op: [dict(a), dict(b), dict(c)]}, dict(d), dict(a)]})
        out.append({op: [{op: []}, dict(a)]})
    return out


def part_specs():
    out = []
    for p in gen.PARTS + c10.LABELLED:
        if p[0] != "prim":
            out.extend(c10.part_spellings(p))
    out.append({"type": "map_value", "key.in": ["a", {"path": ["k"]}], "value.length.lt": 3, "label": "x"})
    # long forms that are combinations (nested lists the parser must not touch) next to shorthands of the same kind
    out.append({"type": "map_value", "value": {"and": [{"value.gt": 0}, {"value.lt": 9}]}, "value.dtype.eq": "int"})
    out.append({"type": "list_value", "index": {"or": [{"index.eq": 0}, {"index.gt": 2}]}, "index.lt": 9, "value": {"and": [{"value.gt": 0}]}})
    out.append({"type": "map_or_list_value", "key": {"and": [{"key.eq": "a"}]}, "key.length.eq": 1, "condition": {"and": [{"value.gt": 0}, {"value.lt": 5}]}})
    return out


def path_specs():
    out = []
    for p in gen.paths(2, gen.PARTS12):
        if any(x[0] != "prim" for x in p[1]):
            out.append(("parts", [S.part_spec(x, "short") for x in p[1]]))
            out.append(("path", S.path_spec(T.path(p[1], "length", "first", "md"))))
    return out


def rule_specs():
    out = []
    for p in c10.R_PATHS:
        for c in c10.R_CONDS[1:4]:
            for cast in c10.R_CASTS:
                for form in c10.DOC_FORMS:
                    sp = S.rule_spec(T.rule(T.path(p), c, cast), "short")
                    if form is not None:
                        sp["doc"] = fresh(form)
                    out.append(sp)
    out.append({"path": ["a"], "condition": {"value.in": [{"path": ["b"]}, 2]}, "cast": {"str": "int"},
                "doc": {"description": [" d "], "examples": [" e "]}})
    return out


_c = {}


def all_specs(tier):
    if tier not in _c:
        s = [("cond", x) for x in cond_specs(tier)]
        s += [("part", x) for x in part_specs()]
        s += path_specs()
        rs = rule_specs()
        s += [("rule", x) for x in rs]
        s += [("rules", [fresh(rs[i]), fresh(rs[j])]) for i, j in ((1, 7), (30, 2), (len(rs) - 1, 5), (100, 101))]
        s += [("rules", [])]
        _c[tier] = s
    return _c[tier]


def prepare(tier):
    all_specs(tier)


def units(tier):
    return gen.chunks(len(all_specs(tier)), 40)


def run_unit(unit, tier):
    res = Result()
    specs = all_specs(tier)
    depth = 2 if tier == "quick" else 3
    from mc.fresh import run_fresh

    def one_spec(kind, spec):
        # all re-parse histories of ONE spec, in a process in which nothing else has been parsed before: the first
        # parse of the deepest history is then really the first time the parser sees this spec
        r = Result()
        n = len(ENTRY[kind])
        for d in range(depth, 0, -1):
            for hist in itertools.product(range(n), repeat=d):
                check_history(r, kind, spec, list(hist))
        return r.counts, r.states, r.outcomes, r.violations, r.notes

    for i in range(unit[0], unit[1]):
        kind, spec = specs[i]
        r = Result()
        r.counts, r.states, r.outcomes, r.violations, r.notes = run_fresh(one_spec, kind, spec)
        for v in r.violations.values():
            v["case"]["pristine"] = True
        res.merge(r)
    kind, spec = specs[unit[0]]
    res.sample({"kind": kind, "spec": spec, "history": [0, len(ENTRY[kind]) - 1]})
    return res


def replay(case):
    res = Result()
    check_history(res, case["kind"], case["spec"], case["history"])
    return list(res.violations.values())


def copy_spec(x):
    if isinstance(x, dict):
        return {k: copy_spec(v) for k, v in x.items()}
    if isinstance(x, list):
        return [copy_spec(i) for i in x]
    if isinstance(x, tuple):
        return tuple(copy_spec(i) for i in x)
    return x


def check_history(res, kind, spec0, hist):
    res.count("evaluations")
    case = {"kind": kind, "spec": spec0, "history": hist}
    spec = copy_spec(spec0)        # one structure object, parsed len(hist) times
    init = snap(spec)
    res.states.add(hash(init))
    objs, snaps = [], []
    for n, e in enumerate(hist):
        name, fn = ENTRY[kind][e]
        res.count("transitions")
        try:
            o = fn(spec)
        except BaseException as ex:
            if n == 0:
                # not a well-formed spec for this entry point after all: outside C16 (C09/C10/C19 judge that)
                res.note("first parse rejected (%s)" % type(ex).__name__)
                return
            res.violation("reparse-raises:%s:%s:%s" % (kind, name, type(ex).__name__),
                          "parse %d of the same %s spec through %s raised %r (parse 1 succeeded)" % (n + 1, kind, name, ex),
                          case, observed=repr(ex), expected="an object equal to the first")
            return
        now = snap(spec)
        res.states.add(hash(now))
        if now != init:
            res.violation("spec-changed:%s:%s" % (kind, name), "%s changed the caller's spec: %r -> %r" % (name, spec0, spec),
                          case, observed=repr(spec), expected=repr(spec0))
            return
        for k, (o_prev, s_prev) in enumerate(zip(objs, snaps)):
            if vsnap(o_prev) != s_prev:
                res.violation("earlier-object-changed:%s:%s" % (kind, name),
                              "the object from parse %d changed when the spec was parsed again through %s" % (k + 1, name),
                              case, observed=repr(o_prev))
                return
        # compare with the first parse through an equivalent entry point (from_spec / from_json_like
        # are the same parser; the three part entry points wrap the part differently)
        fam = e if kind in ("part", "rules") else 0
        prev = [k for k in range(n) if (hist[k] if kind in ("part", "rules") else 0) == fam]
        if prev:
            first = objs[prev[0]]
            if not (o == first and first == o) or vsnap(o) != snaps[prev[0]]:
                res.violation("reparse-differs:%s:%s" % (kind, name), "parse %d of the same spec through %s gives %r, parse 1 "
                              "gave %r" % (n + 1, name, o, first), case, observed=repr(o), expected=repr(first))
                return
        objs.append(o)
        snaps.append(vsnap(o))
    res.count("validated")
    if len(hist) >= 2:
        res.count("nontrivial")
    res.outcome((kind, len(hist)))
