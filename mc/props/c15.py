"""C15 -- casts replace exactly the castable selected nodes in a private copy.

T-space: schemas of 1-2(-3) rules with str->bool / str->int casts over 14 path shapes x 4
conditions x documents whose leaves are castable / uncastable strings under keys of every
type and inside lists.  Oracle: reference cast application (type-exact cast data, verdicts,
input unchanged, no aliasing).  H flavour: validate twice, results equal.
"""
import itertools

from mc import terms as T, ref, gen
from mc.alphabet import K, Tok
from mc.enc import fresh
from mc.run import Result
from mc.snapshot import vsnap, aliases
from mc.props.c03 import shape
from mc.props.c05 import cshape

from valida.data import Data

META = {
    "rule": "schemas of 1 rule (15 path shapes x 5 conditions incl. the null condition x 2 casts), all ordered pairs of rules over "
            "(14 paths x {bool cast, int cast, no cast}) and a parent/child/grandchild triple x every document "
            "of the cast family; plus 28 'dependent' schemas (a part value condition or a data-path argument that looks at a node which its own or another rule's cast replaces; both rule orders; API- and spec-built) x their own documents; a case is one (schema, document) pair; non-trivial = the reference model "
            "replaces at least one node; distinct by construction",
    "assumptions": ["two rules casting the same node to different types are skipped (the statement does not say "
                    "which wins); cast-free rules are compared only when no cast touches a node they select",
                    "str->bool succeeds iff the lower-cased text is true/false; str->int iff int(text) succeeds"],
    "bounds": {"quick": {"schemas": "1-rule all + 2-rule pairs over 8 path shapes", "documents": "cast family (~330)"},
               "thorough": {"schemas": "1-rule all + all 2-rule pairs + triples", "documents": "cast family (~330)"}},
}

L = T.leaf
M, Ls, MOL = gen.BARE
PATHS = [
    (), (("prim", "a"),), (("prim", "a"), ("prim", "b")), (("prim", "a"), ("prim", 0)), (("prim", 0),),
    (("prim", 1),), (("prim", 1.5),), (("prim", True),), (M,), (Ls,), (MOL,), (("prim", "a"), Ls), (M, M),
    (("prim", "m"),), (("prim", "m"), ("prim", "x")),
    (("prim", "a"), ("prim", -1)), (("prim", -1),),       # a negative integer is a mapping key, never a list index
]
PATHS8 = [PATHS[i] for i in (1, 3, 4, 8, 9, 12, 13, 14)]
CONDS = [L("ValueDataType", "equal_to", bool), L("ValueDataType", "equal_to", int), L("Value", "equal_to", 3),
         L("Value", "truthy"), T.NULL]     # (a cast-only rule: the null condition)
CASTS = [(("str", "bool"),), (("str", "int"),)]
LEAFS = ["true", "FALSE", "True", "3", "-3", " 3 ", "3.0", "abc", "", 3, True, None, [], {}, "inf", "1e999", "1e3", "nan", "0x10", "1_0",
         Tok("3"), Tok("true"), Tok("x")]      # strings of a sub-type of str are strings


def documents():
    out = []
    for k in K:
        for v in LEAFS:
            out.append({k: v})
    for v in LEAFS:
        out += [[v], [1, v], {"a": {"b": v}}, {"a": [v, "3"]}, {"m": {"x": v}}, [{"a": v}], [[v]],
                {"a": v, "b": "true", 1: "3"}]
    out += [{"a": "3", "b": "true", "m": {"x": "7", "y": "false"}, 0: "1", 1.5: "2", True: "3", None: "4"},
            ["3", "true", "abc", 3, ["4"], {"a": "5"}]]
    return out


def schemas(tier):
    out = []
    for p in PATHS:
        for c in CONDS:
            for cast in CASTS:
                out.append(("schema", (T.rule(T.path(p), c, cast),)))
    ps = PATHS8 if tier == "quick" else PATHS
    rules2 = [T.rule(T.path(p), CONDS[1], cast) for p in ps for cast in CASTS + [()]]
    for a, b in itertools.product(rules2, repeat=2):
        if a[3] or b[3]:
            out.append(("schema", (a, b)))
    # parent / child / grandchild, all cast rules, every order
    tri = [T.rule(T.path(p), CONDS[1], CASTS[1]) for p in ((("prim", "m"),), (("prim", "m"), ("prim", "x")), ())]
    for perm in itertools.permutations(tri):
        out.append(("schema", tuple(perm)))
    tri2 = [T.rule(T.path((("prim", "a"),)), CONDS[0], CASTS[0]),
            T.rule(T.path((("prim", "a"), Ls)), CONDS[1], CASTS[1]),
            T.rule(T.path((M,)), CONDS[3], ())]
    for perm in itertools.permutations(tri2):
        out.append(("schema", tuple(perm)))
    return out


_c = {}


def _schemas(tier):
    if tier not in _c:
        _c[tier] = schemas(tier)
    return _c[tier]


def prepare(tier):
    _schemas(tier)


def dependent():
    """Schemas in which what one rule selects, or what its condition compares with, depends on a node that a cast
    (its own or another rule's) replaces: part value conditions on a cast sibling, data-path arguments pointing at a
    cast node.  -> [(schema, [documents])]"""
    P = T.path
    PA = lambda *parts: ("$path", P(tuple(("prim", x) for x in parts)))
    INT, BOOL = CASTS[1], CASTS[0]
    out = []
    for cont, bare in (("list", Ls), ("map", M)):
        a = T.rule(P((bare, ("prim", "id"))), CONDS[1], INT)
        bs = [T.rule(P(((cont, None, L("Value", "items_contain", id=v), None), ("prim", "debug"))), CONDS[0], BOOL) for v in ("7", 7)]
        items = [{"id": "7", "debug": "true"}, {"id": "8", "debug": "false"}, {"id": 7, "debug": "TRUE"}, {"id": "x", "debug": "no"}, {"debug": "true"}]
        docs = [items[:2], items, items[::-1], [items[2]]]
        if cont == "map":
            docs = [{("j%d" % i): it for i, it in enumerate(d)} for d in docs]
        for b in bs:
            out += [(("schema", (a, b)), docs), (("schema", (b, a)), docs), (("schema", (b,)), docs)]
    lim_docs = [{"a": "3", "limit": "5"}, {"a": "7", "limit": "5"}, {"a": 3, "limit": "5"}, {"a": "3", "limit": 5}, {"a": "x", "limit": "5"},
                {"a": "3", "b": "4", "limit": "x"}, {"limit": "5"}]
    c = T.rule(P((M,)), L("Value", "less_than_or_equal_to", PA("limit")), INT)
    c2 = T.rule(P((("prim", "a"),)), L("Value", "in_range", lower=0, upper=PA("limit")), INT)
    lim = T.rule(P((("prim", "limit"),)), CONDS[1], INT)
    out += [(("schema", (c,)), lim_docs), (("schema", (c2,)), lim_docs), (("schema", (lim, c2)), lim_docs), (("schema", (c2, lim)), lim_docs)]
    d = T.rule(P((("prim", "a"),)), L("Value", "equal_to", PA("b")), INT)
    e = T.rule(P((("prim", "b"),)), L("Value", "truthy"), INT)
    f = T.rule(P((("prim", "a"),)), L("Value", "in_", [PA("b"), PA("m", "x")]), BOOL)
    ab_docs = [{"a": "3", "b": "3"}, {"a": "3", "b": 3}, {"a": 3, "b": "3"}, {"a": "3", "b": "4"}, {"a": "true", "b": "TRUE", "m": {"x": "false"}},
               {"a": "false", "b": "x", "m": {"x": "False"}}]
    g = T.rule(P((("prim", "m"), ("prim", "x"))), CONDS[0], BOOL)
    out += [(("schema", (d,)), ab_docs), (("schema", (d, e)), ab_docs), (("schema", (e, d)), ab_docs), (("schema", (f,)), ab_docs),
            (("schema", (f, g)), ab_docs), (("schema", (g, f)), ab_docs)]
    return out


def units(tier):
    return gen.chunks(len(_schemas(tier)), 12) + [["HOW", how] for how in ("spec", "composed")] + [["DEP"], ["REROOT"]]


def two_rule_schemas():
    ps = PATHS8
    rules2 = [T.rule(T.path(p), CONDS[1], cast) for p in ps for cast in CASTS + [()]]
    return [("schema", (a, b)) for a, b in itertools.product(rules2, repeat=2) if a[3] or b[3]][::3]


def run_unit(unit, tier):
    res = Result()
    if unit[0] == "HOW":
        # the same 2-rule schemas, but (spec) loaded through Schema.from_json_like -- all in ONE process, so that rules of
        # different casts are loaded next to each other -- or (composed) built as Schema([r1]), validated once, and
        # completed with add_schema(Schema([r2]), DataPath())
        docs = documents()[::4]
        for si, st in enumerate(two_rule_schemas()):
            for di, doc in enumerate(docs):
                check_case(res, st, doc, key=(unit[1], si, di), how=unit[1])
        return res
    if unit[0] == "REROOT":
        # every one-rule schema whose path has >= 2 parts, built by adding the rule under each proper prefix of its path
        # (roots with fan-out and concrete roots alike) -- on all documents
        docs = documents()
        extra = [(M, ("prim", "a")), (Ls, ("prim", "a")), (("prim", "a"), Ls, ("prim", "b")), (M, Ls), (MOL, ("prim", 0))]
        sts = [st for st in _schemas("quick") if len(st[1]) == 1 and len(st[1][0][1][1]) >= 2]
        sts += [("schema", (T.rule(T.path(p), c, cast),)) for p in extra for c in CONDS[:2] for cast in CASTS]
        docs2 = docs + [[{"a": "3"}, {"a": "true", "b": "4"}, {"a": "x"}], {"j": {"a": "3"}, "k": {"a": "FALSE"}, "a": ["3", {"b": "5"}, {"b": "true"}]}]
        for si, st in enumerate(sts):
            for k in range(1, len(st[1][0][1][1])):
                for di, doc in enumerate(docs2):
                    check_case(res, st, doc, key=("REROOT", si, k, di), how="rerooted:%d" % k)
        return res
    if unit[0] == "DEP":
        for si, (st, docs) in enumerate(dependent()):
            for di, doc in enumerate(docs):
                for how in ("api", "spec"):
                    check_case(res, st, doc, key=("DEP", si, di, how), how=how)
        return res
    ss = _schemas(tier)
    docs = documents()
    for si in range(unit[0], unit[1]):
        for di, doc in enumerate(docs):
            check_case(res, ss[si], doc, key=(si, di))
    res.sample({"schema": ss[unit[0]], "doc": docs[3]})
    return res


def replay(case):
    res = Result()
    check_case(res, case["schema"], case["doc"], key=("replay",), how=case.get("how", "api"))
    return list(res.violations.values())


def conflicting(st, doc):
    """(a) two rules cast the same node to different types; (b) cast-free rule selects a node a cast touches."""
    touched = {}
    for r in st[1]:
        if r[3]:
            for cp, node in ref.walk(r[1], doc):
                ok, _ = ref.cast_value(r[3], node)
                if ok:
                    touched.setdefault(cp, set()).add(r[3])
    if any(len(v) > 1 for v in touched.values()):
        return "different casts on one node"
    for r in st[1]:
        if not r[3]:
            for cp, _ in ref.walk(r[1], doc):
                if cp in touched:
                    return "cast-free rule on a cast node"
    return None


def sig_of(st):
    return "%d-rule:%s" % (len(st[1]), "+".join(shape(r[1]) + ("^" + r[3][0][1] if r[3] else "") for r in st[1]))


def build_how(st, how):
    if how == "api":
        return T.build_schema(st)
    from mc import specs as S
    from valida.schema import Schema
    from valida.datapath import DataPath
    if how == "spec":
        return Schema.from_json_like([S.rule_spec(r) for r in st[1]])
    if how.startswith("rerooted"):
        # a one-rule schema whose rule was added with add_schema under the first k parts of its path
        k = int(how.split(":")[1])
        r = st[1][0]
        s = Schema([])
        s.add_schema(T.build_schema(("schema", (T.rule(T.path(r[1][1][k:]), r[2], r[3]),))), DataPath(*[T.build_part(x) for x in r[1][1][:k]]))
        return s
    # composed: the first rule alone, used once, then the others added at the empty root
    s = T.build_schema(("schema", st[1][:1]))
    s.validate({"a": "3", "zz": ["true"]})
    s.add_schema(T.build_schema(("schema", st[1][1:])), DataPath())
    return s


def check_case(res, st, doc, key, how="api"):
    res.count("evaluations")
    res.state(*key)
    case = {"schema": st, "doc": doc, "how": how}
    why = conflicting(st, doc)
    if why:
        res.count("skipped: " + why)
        return
    d = fresh(doc)
    before = vsnap(d)
    want = ref.schema_validate(st, doc)
    res.count("transitions")
    try:
        schema = build_how(st, how)
        vd = schema.validate(d)
        cast_data = vd.cast_data
        got = [(rt.is_valid, rt.tested, [tuple(f.path) for f in rt.failures]) for rt in vd.rule_tests]
    except BaseException as e:
        res.violation("raises:%s:%s" % (type(e).__name__, sig_of(st)), "validating %r against %s raised %r"
                      % (doc, T.show(st), e), case, observed=repr(e), expected=want["cast_data"])
        return
    if vsnap(d) != before:
        res.violation("input-changed:%s" % sig_of(st), "validation with casts changed the caller's document: %r -> %r"
                      % (doc, d), case, observed=d, expected=doc)
        return
    if vsnap(cast_data) != vsnap(want["cast_data"]):
        res.violation("cast-data:%s" % sig_of(st), "cast_data of %s on %r is not the input with exactly the castable "
                      "selected nodes replaced" % (T.show(st), doc), case, observed=cast_data, expected=want["cast_data"])
        return
    al = aliases(cast_data, d)
    if al:
        res.violation("aliasing:%s" % sig_of(st), "cast_data shares mutable containers with the input: %r" % (al,), case,
                      observed=al, expected="no shared list/dict")
        return
    exp = [(t["valid"], t["tested"], [cp for cp, _ in t["failures"]]) for t in want["tests"]]
    if got != exp:
        res.violation("verdict:%s" % sig_of(st), "verdicts of %s on %r are not the reference verdicts on the cast copy"
                      % (T.show(st), doc), case, observed=got, expected=exp)
        return
    # Rule.test(doc).data for single-rule schemas
    if len(st[1]) == 1:
        res.count("transitions")
        try:
            d2 = fresh(doc)
            rt = schema.rules[0].test(d2)
            rdata = rt.data.get_original() if isinstance(rt.data, Data) else rt.data
        except BaseException as e:
            res.violation("raises:%s:Rule.test:%s" % (type(e).__name__, sig_of(st)), "Rule.test raised %r" % (e,), case,
                          observed=repr(e))
            return
        if vsnap(rdata) != vsnap(want["cast_data"]) or vsnap(d2) != before or aliases(rt.data, d2):
            res.violation("rule-test-data:%s" % sig_of(st), "Rule.test(doc).data is not the privately cast copy", case,
                          observed=rdata, expected=want["cast_data"])
            return
    # H flavour: the same schema object again, and on another document in between
    res.count("transitions", 2)
    try:
        schema.validate({"a": "3", "m": {"x": "true"}})
        vd2 = schema.validate(fresh(doc))
        again = (vsnap(vd2.cast_data), [(rt.is_valid, rt.tested, [tuple(f.path) for f in rt.failures]) for rt in vd2.rule_tests])
    except BaseException as e:
        res.violation("repeat-raises:%s" % type(e).__name__, "second validation raised %r" % (e,), case, observed=repr(e))
        return
    if again != (vsnap(cast_data), got):
        res.violation("not-repeatable:%s" % sig_of(st), "validating again gives a different result", case,
                      observed=again[1], expected=got)
        return
    res.count("validated")
    if vsnap(want["cast_data"]) != before:
        res.count("nontrivial")
    res.outcome((want["valid"], vsnap(want["cast_data"]) != before))
