"""C05 -- a rule is valid iff every node its path selects satisfies its condition.

T-space, factored the way the code is: (all paths x 8 condition kinds x documents) +
(8 path shapes x all conditions x documents).  Oracle = reference rule test.
"""
import itertools

from mc import terms as T, ref, gen
from mc.enc import fresh
from mc.run import Result
from mc.snapshot import vsnap
from mc.props.c03 import same_node, same_value, shape
from mc.props.c04 import reach

META = {
    "rule": "rules = path x value-kind condition tree; product factored as (every path x 9 conditions) + "
            "(8 paths x every condition) x every document; a case is one (rule, document) pair; non-trivial = "
            "the path selects at least one node (rule tested); distinct by construction",
    "assumptions": ["wording of failure reasons is not judged (only: non-empty tuple of str)",
                    "conditions are from the well-typed alphabet (exact oracle); leaf meanings are C01's business"],
    "bounds": {
        "quick": {"paths": "length<=1 over 42 parts + length 2 over 12 parts + length 3 over 7 parts", "conditions": "43 leaves + 114 trees (depth<=2 over 6 leaves)",
                  "documents": "F-struct(3) + F-type + F-deep"},
        "thorough": {"paths": "length<=1 over 42 parts + length 2 over 20 parts + length 3 over 7 parts", "conditions": "same",
                     "documents": "F-struct(4) + F-type + F-deep"},
    },
}

L = T.leaf
LEAVES = [
    L("Value", "equal_to", 1), L("Value", "not_equal_to", "a"), L("Value", "less_than", 2),
    L("Value", "greater_than", 0), L("Value", "less_than_or_equal_to", "a"),
    L("Value", "greater_than_or_equal_to", 1.5), L("Value", "in_", [1, "a", None]), L("Value", "not_in", "abc"),
    L("Value", "in_range", 0, 2), L("Value", "not_in_range", 0, 2), L("Value", "equal_to_approx", 1, 0.6),
    L("Value", "factor_of", 6), L("Value", "has_factor", 2), L("Value", "truthy"), L("Value", "falsy"),
    L("Value", "null"), L("Value", "is_instance", int, str), L("Value", "keys_contain", "a"),
    L("Value", "keys_contain_any_of", "a", "b"), L("Value", "keys_contain_all_of", "a", "b"),
    L("Value", "keys_contain_N_of", 1, ["a", "b"]), L("Value", "keys_contain_at_least_N_of", 1, ["a", 1]),
    L("Value", "keys_contain_at_most_N_of", 0, ["a"]), L("Value", "keys_contain_one_of", "a", 1),
    L("Value", "keys_contain_at_least_one_of", ["a"]), L("Value", "keys_contain_at_most_one_of", ["a", "b"]),
    L("Value", "keys_equal_to", "a"), L("Value", "keys_is_instance", str), L("Value", "items_contain", a=1),
    L("Value", "allowed_keys", "a", "b"), L("Value", "required_keys", "a"), L("Value", "forbidden_keys", "a"),
    L("ValueLength", "equal_to", 1), L("ValueLength", "less_than", 2), L("ValueLength", "in_", [0, 2]),
    L("ValueLength", "in_range", 1, 3), L("ValueLength", "truthy"),
    L("ValueDataType", "equal_to", dict), L("ValueDataType", "not_equal_to", str),
    L("ValueDataType", "in_", [int, list]), L("ValueDataType", "not_in", [dict, type(None)]),
    L("ValueDataType", "equal_to", bool), L("ValueDataType", "in_", [str, float]),
    L("Value", "is_instance", bool), L("Value", "is_instance", float), L("Value", "is_instance", int),
]
POOL6 = [T.NULL, LEAVES[0], LEAVES[2], LEAVES[13], LEAVES[32], LEAVES[37]]


def trees():
    out = []
    for op in ("and", "or", "xor"):
        for a, b in itertools.product(POOL6, repeat=2):
            out.append((op, a, b))
    # one depth-3 layer for or-of-and / xor-of-or failures
    out.append(("or", ("and", LEAVES[0], LEAVES[2]), ("xor", LEAVES[13], LEAVES[37])))
    out.append(("xor", ("or", LEAVES[0], LEAVES[32]), ("and", LEAVES[13], LEAVES[2])))
    out.append(("and", ("xor", LEAVES[0], LEAVES[13]), ("or", LEAVES[37], LEAVES[32])))
    # the always-true *callable* `null` (an ordinary condition, not the null condition) under or / xor / and
    # equal_to_approx at its boundary (|d - v| == tolerance is not "approximately equal") and far from zero
    out += [T.leaf("Value", "equal_to_approx", 1, 1), T.leaf("Value", "equal_to_approx", 2, 0.5), T.leaf("Value", "equal_to_approx", 2 ** 62)]
    vn = T.leaf("Value", "null")
    out += [("or", vn, LEAVES[0]), ("xor", vn, LEAVES[13]), ("xor", LEAVES[0], vn), ("and", vn, LEAVES[2]),
            ("or", ("xor", vn, LEAVES[0]), LEAVES[13])]
    return out


CONDS = LEAVES + trees()
CONDS8 = [LEAVES[0], LEAVES[2], LEAVES[13], LEAVES[32], LEAVES[37], LEAVES[30], LEAVES[43],
          ("xor", LEAVES[13], LEAVES[0]), ("or", ("and", LEAVES[0], LEAVES[2]), LEAVES[37])]
PATHS8 = [T.path(()), T.path((gen.PRIMS[0],)), T.path((gen.PRIMS[3],)), T.path((gen.BARE[2],)),
          T.path((gen.BARE[0], gen.BARE[1])), T.path((gen.PRIMS[0], gen.LISTS[3])),
          T.path((gen.MOLS[6], gen.BARE[2])), T.path((gen.MAPS[7],))]


def rules(tier):
    sub = gen.PARTS12 if tier == "quick" else gen.PARTS20
    ps = list(gen.paths(1, gen.PARTS)) + [p for p in gen.paths(2, sub) if len(p[1]) == 2]
    ps += [p for p in gen.paths(3, gen.PARTS7) if len(p[1]) == 3]
    out = [T.rule(p, c) for p in ps for c in CONDS8]
    out += [T.rule(p, c) for p in PATHS8 for c in CONDS]
    return out


def family(tier):
    return (gen.docs_struct(3) if tier == "quick" else gen.docs_struct(4)) + gen.docs_type2() + gen.docs_deep()


_rl = {}


def _rules(tier):
    if tier not in _rl:
        _rl[tier] = rules(tier)
    return _rl[tier]


def prepare(tier):
    _rules(tier)
    family(tier)


def units(tier):
    return gen.chunks(len(_rules(tier)), 10) + [["CONF", 0], ["CONF", 1]]


def run_unit(unit, tier):
    res = Result()
    if unit[0] == "CONF":
        # rules whose paths differ only by 1 / 1.0 / True / '1' (C03's confusable pool), all tested in ONE process, in both orders
        from mc.props.c03 import CONFUSABLE, CONF_DOCS
        pool = [T.rule(p, c) for p in CONFUSABLE for c in (LEAVES[0], CONDS8[2])]
        if unit[1]:
            pool = pool[::-1]
        for ri, rt in enumerate(pool):
            r = build(res, rt, CONF_DOCS[0])
            live = {list: [], dict: {}}
            for di, doc in enumerate(CONF_DOCS):
                if r is not None:
                    check_case(res, rt, r, doc, key=("CONF", unit[1], ri, di))
                    r = live_step(res, rt, r, live, doc)
        return res
    rs = _rules(tier)
    docs = family(tier)
    for ri in range(unit[0], unit[1]):
        r = build(res, rs[ri], docs[0])
        if r is None:
            continue
        # rules with paths of length >= 3 run on the F-deep + F-type documents only
        use = docs if len(rs[ri][1][1]) <= 2 else gen.docs_deep() + gen.docs_type2()
        live = {list: [], dict: {}}
        rj = joined_rule(rs[ri])
        for di, doc in enumerate(use):
            check_case(res, rs[ri], r, doc, key=(ri, di))
            if r is not None:
                r = live_step(res, rs[ri], r, live, doc)
            if rj is not None:
                rj = check_joined(res, rs[ri], rj, doc)
    res.sample({"rule": rs[unit[0]], "doc": docs[0]})
    return res


def build(res, rt, doc):
    try:
        return T.build_rule(rt)
    except BaseException as e:
        res.violation("build:%s:%s" % (type(e).__name__, cshape(rt[2])), "building %s raised %r" % (T.show(rt), e),
                      {"rule": rt, "doc": doc}, observed=repr(e))
        return None


def joined_rule(rt):
    """The same rule with its path assembled by the `/` operator from two shorter paths (split in the middle)."""
    from valida.datapath import DataPath
    from valida.rules import Rule
    parts = rt[1][1]
    if len(parts) < 2 or rt[1][2] or rt[1][3]:
        return None
    k = len(parts) // 2
    try:
        path = DataPath(*[T.build_part(x) for x in parts[:k]]) / DataPath(*[T.build_part(x) for x in parts[k:]])
        return Rule(path=path, condition=T.build_cond(rt[2]), cast=T.build_cast(rt[3]))
    except BaseException:
        return None


def check_joined(res, rt, rj, doc):
    want = ref.rule_test(rt, doc)
    if not want["exact"]:
        return rj
    res.count("transitions")
    case = {"rule": rt, "doc": doc, "joined": True}
    try:
        t = rj.test(fresh(doc))
        got = (t.is_valid, t.tested, [tuple(f.path) for f in t.failures])
    except BaseException as e:
        res.violation("raises:%s:joined-path:%s" % (type(e).__name__, cshape(rt[2])), "%s with its path assembled by `/` raised %r on %r"
                      % (T.show(rt), e, doc), case, observed=repr(e))
        return None
    exp = (want["valid"], want["tested"], [wp for wp, _ in want["failures"]])
    if got != exp:
        res.violation("joined-path:%s|%s" % (shape(rt[1]), cshape(rt[2])), "%s with its path assembled by `/` from two shorter paths: "
                      "wrong verdict / failing paths on %r" % (T.show(rt), doc), case, observed=got, expected=exp)
        return None
    return rj


def live_step(res, rt, r, live, doc):
    """The same rule object, and one list / one mapping that its owner edits in place into each document of the
    family in turn: the verdict is about what the container holds now.  -> the rule (None after a violation)."""
    c = live[type(doc)]
    new = fresh(doc)
    if isinstance(c, list):
        c[:] = new
    else:
        c.clear()
        c.update(new)
    want = ref.rule_test(rt, c)
    if not want["exact"]:
        return r
    case = {"rule": rt, "doc": doc, "live": True}
    res.count("transitions")
    res.count("live_container_steps")
    try:
        t = r.test(c)
        got = (t.is_valid, t.tested, [tuple(f.path) for f in t.failures])
    except BaseException as e:
        res.violation("raises:%s:live:%s" % (type(e).__name__, cshape(rt[2])), "%s (one rule object, one container edited in place) "
                      "raised %r on %r" % (T.show(rt), e, doc), case, observed=repr(e))
        return None
    exp = (want["valid"], want["tested"], [wp for wp, _ in want["failures"]])
    if got != exp:
        res.violation("live-container:%s|%s" % (shape(rt[1]), cshape(rt[2])), "%s on a container its owner edited in place to %r: "
                      "wrong verdict / failing paths" % (T.show(rt), doc), case, observed=got, expected=exp)
        return None
    return r


def replay(case):
    res = Result()
    if case.get("joined"):
        rj = joined_rule(case["rule"])
        if rj is not None:
            check_joined(res, case["rule"], rj, case["doc"])
        return list(res.violations.values())
    r = build(res, case["rule"], case["doc"])
    if r is not None and case.get("live"):
        live_step(res, case["rule"], r, {list: [], dict: {}}, case["doc"])
        return list(res.violations.values())
    if r is not None:
        check_case(res, case["rule"], r, case["doc"], key=("replay",))
    return list(res.violations.values())


def cshape(c):
    if c[0] in ("and", "or", "xor"):
        return "(%s %s %s)" % (cshape(c[1]), c[0], cshape(c[2]))
    return "null" if c[0] == "null" else "%s.%s" % (c[1], c[2])


def check_case(res, rt, r, doc, key):
    res.count("evaluations")
    res.state(*key)
    case = {"rule": rt, "doc": doc}
    d = fresh(doc)
    before = vsnap(d)
    want = ref.rule_test(rt, d)
    res.count("transitions")
    sig_tail = "%s|%s" % (shape(rt[1]), cshape(rt[2]))
    try:
        t = r.test(d)
        got_valid, got_tested, fails, nf = t.is_valid, t.tested, t.failures, t.num_failures
        got_f = [(f.path, f.value, f.reasons) for f in fails]
    except BaseException as e:
        res.violation("raises:%s:%s" % (type(e).__name__, sig_tail), "%s raised %r on %r" % (T.show(rt), e, doc),
                      case, observed=repr(e), expected=want)
        return
    if not want["exact"]:
        res.count("oracle_totality")
        return
    ok = (got_valid is want["valid"] and got_tested is want["tested"] and nf == len(got_f)
          and len(got_f) == len(want["failures"]))
    if ok:
        for (gp, gv, gr), (wp, wv) in zip(got_f, want["failures"]):
            try:
                truthful = same_node(reach(d, gp), gv) if gp else True
            except Exception:
                truthful = False
            # (the document itself, selected by the empty path, is handed over by value)
            same = same_node(gv, wv) if wp else same_value(gv, wv)
            if not (tuple(gp) == wp and same and truthful):
                ok = False
            elif not (isinstance(gr, tuple) and len(gr) >= 1 and all(isinstance(x, str) for x in gr)):
                res.violation("reasons:%s" % cshape(rt[2]), "failure of %s on %r has no textual reason: %r"
                              % (T.show(rt), doc, gr), case, observed=gr, expected="non-empty tuple of str")
                return
    if not ok:
        res.violation("verdict:%s" % sig_tail, "%s on %r: wrong verdict / failure list" % (T.show(rt), doc), case,
                      observed={"valid": got_valid, "tested": got_tested, "n": nf,
                                "failures": [(p, v) for p, v, _ in got_f]},
                      expected={k: want[k] for k in ("valid", "tested", "failures")})
        return
    if want["tested"]:
        # H flavour: one Data wrapper, the same rule tested on it twice
        from valida.data import Data
        res.count("transitions", 2)
        try:
            D = Data(d)
            obs = []
            for _ in (1, 2):
                t2 = r.test(D)
                obs.append((t2.is_valid, t2.tested, [(tuple(f.path), f.reasons != ()) for f in t2.failures]))
        except BaseException as e:
            res.violation("rewrapped-raises:%s:%s" % (type(e).__name__, sig_tail), "testing %s twice on one Data wrapper of %r raised %r"
                          % (T.show(rt), doc, e), case, observed=repr(e))
            return
        exp = (want["valid"], True, [(wp, True) for wp, _ in want["failures"]])
        if obs[0] != exp or obs[1] != exp:
            res.violation("rewrapped-differs:%s" % sig_tail, "testing %s twice on one Data wrapper of %r gives different answers"
                          % (T.show(rt), doc), case, observed=obs, expected=exp)
            return
    if vsnap(d) != before:
        res.violation("document-changed:%s" % sig_tail, "testing %s changed the document %r -> %r" % (T.show(rt), doc, d), case,
                      observed=d, expected=doc)
        return
    res.count("validated")
    if want["tested"]:
        res.count("nontrivial")
    res.outcome((want["valid"], want["tested"], min(len(want["failures"]), 3)))
