"""Bounded exhaustive exploration (model checking) of hpcflow/valida -- see /verif/DESIGN.md."""
import os
import sys

REPO = os.environ.get("VERIF_REPO", "/repo")
if REPO not in sys.path[:1]:
    sys.path.insert(0, REPO)
