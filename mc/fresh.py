"""Run a function in a pristine forked process (the parent never executes code under test, so a
fork is the *initial state* of the library: no cache, memo or registry filled by an earlier
execution).  Used for history-space checks of hidden parser / validator state: every history
"op1 then op2 from the initial state" gets its own process."""
import os
import pickle
import traceback


def run_fresh(fn, *args):
    r, w = os.pipe()
    pid = os.fork()
    if pid == 0:
        code = 0
        try:
            os.close(r)
            try:
                out = ("ok", fn(*args))
            except BaseException:
                out = ("error", traceback.format_exc())
            with os.fdopen(w, "wb") as fh:
                pickle.dump(out, fh)
        except BaseException:
            code = 1
        finally:
            os._exit(code)
    os.close(w)
    with os.fdopen(r, "rb") as fh:
        data = fh.read()
    os.waitpid(pid, 0)
    if not data:
        raise RuntimeError("fresh process died without a result")
    kind, val = pickle.loads(data)
    if kind == "error":
        raise RuntimeError("fresh process raised:\n" + val)
    return val
