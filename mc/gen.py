"""Shared generators: part alphabets, path enumeration, document families (C03-C05, C12, ...)."""
import itertools

from mc import terms as T
from mc.alphabet import f_struct, f_type_two_level, f_type_flat, f_deep

L = T.leaf

V_AND = ("and", L("Value", "greater_than", 0), L("Value", "less_than", 2))
V_OR = ("or", L("Value", "equal_to", 1), L("ValueDataType", "equal_to", dict))
K_OR = ("or", L("Key", "equal_to", "a"), L("KeyDataType", "equal_to", int))
I_OR = ("or", L("Index", "equal_to", 0), L("Index", "greater_than", 1))
V_DICT = L("ValueDataType", "equal_to", dict)
V_LIST = L("ValueDataType", "equal_to", list)
V_EQ1 = L("Value", "equal_to", 1)

PRIMS = [("prim", p) for p in ("a", "b", "", 0, 1, -1, 1.5, True, False, 1.0, "1")]
BARE = [("map", None, None, None), ("list", None, None, None), ("mol", None, None, None, None)]
MAPS = [
    ("map", L("Key", "in_", ["a", 1]), None, None),
    ("map", L("KeyDataType", "equal_to", str), None, None),
    ("map", L("Key", "less_than", "b"), None, None),
    ("map", None, V_EQ1, None),
    ("map", None, V_DICT, None),
    ("map", L("Key", "in_", ["a", 1]), V_DICT, None),
    ("map", None, V_AND, None),
    ("map", None, V_OR, None),
    ("map", K_OR, None, None),
    ("map", ("lit", "a"), None, None),
    ("map", ("lit", 1), ("lit", 1), None),
    ("map", ("lit", 1), None, None),       # an explicit MapValue with an int key: NOT what the primitive 1 converts to
    ("map", ("lit", True), None, None),
    ("map", ("or", L("Key", "less_than", 2), L("Key", "equal_to", "a")), None, None),   # one branch undefined for str keys
    ("map", K_OR, V_DICT, None),                                                          # (k1 or k2) and v: mixed operators
    ("map", ("lit", 2.0), None, None),                                                    # whole-number float key
    ("map", ("lit", "1"), None, None),                                                    # numeric-looking string key
    ("map", None, ("xor", L("Value", "truthy"), V_EQ1), None),     # xor whose first operand holds for (almost) every child
    ("map", None, ("xor", V_EQ1, V_EQ1), None),                    # xor of two equal conditions: selects nothing
]
LISTS = [
    ("list", L("Index", "less_than", 1), None, None),
    ("list", ("lit", 0), None, None),
    ("list", None, V_EQ1, None),
    ("list", None, V_DICT, None),
    ("list", L("Index", "greater_than_or_equal_to", 1), V_LIST, None),
    ("list", None, V_AND, None),
    ("list", I_OR, None, None),
    ("list", None, ("lit", "a"), None),
    ("list", None, ("xor", L("ValueLength", "equal_to", 2), L("Value", "equal_to", 5)), None),   # one branch undefined for numbers
    ("list", None, ("xor", L("Value", "not_equal_to", "zz"), L("ValueDataType", "equal_to", int)), None),   # first operand holds for every child
]
MOLS = [
    ("mol", k, i, v, None)
    for k in (None, ("lit", "a"))
    for i in (None, ("lit", 0))
    for v in (None, V_DICT)
    if (k, i, v) != (None, None, None)
] + [("mol", K_OR, I_OR, V_OR, None), ("mol", ("lit", 1), ("lit", 1), None, None),
     ("mol", ("lit", 1), ("lit", 1), V_DICT, None)]   # primitive-looking key/index plus a value condition

PARTS = PRIMS + BARE + MAPS + LISTS + MOLS
# a 20-part and a 12-part sub-alphabet that keep every part kind and every code path
PARTS20 = [PRIMS[0], PRIMS[3], PRIMS[4], PRIMS[6], PRIMS[7]] + BARE + [MAPS[0], MAPS[3], MAPS[6], MAPS[8]] + \
          [LISTS[0], LISTS[3], LISTS[5], LISTS[6]] + [MOLS[0], MOLS[2], MOLS[6], MOLS[7]]
PARTS12 = [PRIMS[0], PRIMS[3], PRIMS[4]] + BARE + [MAPS[5], MAPS[7], LISTS[4], LISTS[6], MOLS[6], MOLS[7]]
PARTS12X = PARTS12 + [MAPS[11], MOLS[-1], MAPS[13], MAPS[14], MAPS[15], LISTS[8], PRIMS[9], MAPS[16], MAPS[17], MAPS[18], LISTS[9]]


def paths(max_len, parts):
    for n in range(max_len + 1):
        for tup in itertools.product(parts, repeat=n):
            yield T.path(tup)


_cache = {}


def docs_struct(n):
    if ("s", n) not in _cache:
        _cache[("s", n)] = f_struct(n)
    return _cache[("s", n)]


def docs_type2():
    if "t2" not in _cache:
        _cache["t2"] = f_type_two_level() + f_type_flat()
    return _cache["t2"]


def docs_deep():
    if "deep" not in _cache:
        _cache["deep"] = f_deep()
    return _cache["deep"]


# a 7-part sub-alphabet for length-3 paths: one of each part kind plus one conditioned part per kind
PARTS7 = [PRIMS[0], PRIMS[3]] + BARE + [MAPS[4], LISTS[6]]


def chunks(n, size):
    return [[i, min(i + size, n)] for i in range(0, n, size)]


# ---- every comparison callable in every condition position of a part (one representative argument tuple each)
_REP = {
    "equal_to": (1,), "not_equal_to": (1,), "less_than": (2,), "greater_than": (0,), "less_than_or_equal_to": (1,),
    "greater_than_or_equal_to": (1,), "in_": ([1, "a"],), "not_in": ([1, "a"],), "in_range": (0, 2), "not_in_range": (0, 2),
    "equal_to_approx": (1.0, 0.6), "factor_of": (4,), "has_factor": (2,), "truthy": (), "falsy": (), "null": (),
    "is_instance": (int, str),
    "keys_contain": ("a",), "keys_contain_any_of": ("a", "b"), "keys_contain_all_of": ("a", "b"),
    "keys_contain_N_of": (1, ["a", "b"]), "keys_contain_at_least_N_of": (1, ["a", "b"]),
    "keys_contain_at_most_N_of": (1, ["a", "b"]), "keys_contain_one_of": ("a", "b"),
    "keys_contain_at_least_one_of": (["a", "b"],), "keys_contain_at_most_one_of": (["a", "b"],), "keys_equal_to": ("a",),
    "keys_is_instance": (str,), "items_contain": (), "allowed_keys": ("a", "b"), "required_keys": ("a",),
    "forbidden_keys": ("b",),
}
_REP_DTYPE = {"equal_to": (int,), "not_equal_to": (int,), "in_": ([int, str],), "not_in": ([int, str],), "truthy": (),
              "falsy": (), "null": (), "is_instance": (int,)}


def callable_leaves(kind):
    """One leaf per (class of the datum kind, callable): kind in 'value' / 'key' / 'index'."""
    out = []
    for cls in T.CLASSES:
        if T.KIND[cls] != kind:
            continue
        for call in T.CALLABLES[cls]:
            if T.PREP[cls] == "dtype":
                if call not in _REP_DTYPE:
                    continue
                out.append(L(cls, call, *_REP_DTYPE[call]))
            elif call == "items_contain":
                out.append(L(cls, call, a=1))
            elif call in T.MAPC and kind != "value":
                continue
            else:
                out.append(L(cls, call, *_REP[call]))
    return out


def callable_parts():
    """Parts with every callable in every condition position: map key / map value / list index / list value /
    map-or-list key, index, value."""
    out = []
    for c in callable_leaves("key"):
        out.append(("map", c, None, None))
        out.append(("mol", c, None, None, None))
    for c in callable_leaves("index"):
        out.append(("list", c, None, None))
        out.append(("mol", None, c, None, None))
    for c in callable_leaves("value"):
        out.append(("map", None, c, None))
        out.append(("list", None, c, None))
        out.append(("mol", None, None, c, None))
    return out


# ---- combinations that repeat one callable with two different arguments (the spec key of both operands is the same)
_REP2 = {"equal_to": ((1,), (2,)), "not_equal_to": ((1,), (2,)), "less_than": ((5,), (3,)), "greater_than": ((0,), (1,)),
         "in_": (([1, "a"],), ([2, "b"],)), "not_in": (([1],), ([2, "a"],)), "in_range": ((0, 2), (1, 5)),
         "is_instance": ((int,), (str,))}


def repeated_leaf_pairs(kind):
    cls = {"value": "Value", "key": "Key", "index": "Index"}[kind]
    out = []
    for call, (a, b) in _REP2.items():
        if kind == "index" and call == "is_instance":
            continue
        for op in ("and", "or", "xor"):
            out.append((op, L(cls, call, *a), L(cls, call, *b)))
        out.append(("and", ("and", L(cls, call, *a), L(cls, "truthy")), L(cls, call, *b)))
    return out


def repeated_callable_parts():
    out = []
    for c in repeated_leaf_pairs("key"):
        out += [("map", c, None, None), ("mol", c, None, None, None)]
    for c in repeated_leaf_pairs("index"):
        out += [("list", c, None, None), ("mol", None, c, None, None)]
    for c in repeated_leaf_pairs("value"):
        out += [("map", None, c, None), ("list", None, c, None), ("mol", None, None, c, None)]
    return out
