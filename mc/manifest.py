"""Generates /verif/MANIFEST.json from the property modules that exist (kept valid at all times)."""
import importlib
import json
import os

from mc.run import ALL, VERIF

NOT_APPLICABLE = {}


def main():
    checks = []
    na = []
    for pid in ALL:
        try:
            mod = importlib.import_module("mc.props." + pid.lower())
        except ModuleNotFoundError:
            na.append({"property_id": pid, "reason": NOT_APPLICABLE.get(
                pid, "check not built yet (designed in DESIGN.md section 4; model checking applies)")})
            continue
        m = mod.META
        checks.append({
            "property_id": pid,
            "quick_cmd": "./check %s --tier quick" % pid,
            "thorough_cmd": "./check %s --tier thorough" % pid,
            "evidence_file": "/verif/evidence/%s.json" % pid,
            "replay_cmd_template": "./check %s --replay {path}" % pid,
            "engine": "mc",
            "level_claimed": {
                "category": "model_checking",
                "text": m.get("level_text") or (
                    "Bounded exhaustive exploration on the real code: " + m["rule"] + ". A green run is a coverage statement -- "
                    "no execution within the bounds recorded in the evidence file (coverage.bounds, exhaustive=true, no caps) "
                    "violates the property -- not a proof for unbounded terms/documents; the bounds follow the small-scope "
                    "argument of DESIGN.md 3.2 (per-item independent, structurally recursive code) and were widened wherever a "
                    "seeded change escaped them (DESIGN.md 12). This is the right level because the property is universally "
                    "quantified over programs/inputs/histories that the unit tests only sample."),
                "design_ref": "DESIGN.md section 4, " + pid,
            },
            "level_note": "; ".join(m.get("assumptions", [])) or "see DESIGN.md section 6",
            "technique": m.get("technique", "bounded exhaustive enumeration of terms x documents on the real code "
                                            "against a reference model (explicit-state, stateless)"),
        })
    man = {
        "version": 1,
        "setup_cmd": "/venv/bin/python -c \"import sys; sys.path.insert(0,'/verif'); import mc.run, ruamel.yaml, valida\"",
        "hooks": {
            "guard": "VALIDA_VERIF",
            "enable": "no source hooks are needed: checks import valida from /repo's working tree (editable "
                      "install in /venv); the write tracer and scheduler are harness-side. VALIDA_VERIF is "
                      "reserved and unused.",
            "baseline_off_cmd": "cd /repo && /venv/bin/python -m pytest -ra -q -p no:cacheprovider --timeout=900 "
                                "--continue-on-collection-errors",
            "source_commits": [],
            "add_only": True,
        },
        "engines": [{
            "name": "mc", "path": "/verif/mc",
            "serves_properties": [c["property_id"] for c in checks],
            "kind_free_text": "hand-written explicit-state / stateless explorer for Python: enumerates every "
                              "term x document (T), every operation history (H) and every 2-thread schedule (S) "
                              "within stated bounds, executes each on the real valida code and judges it against "
                              "a reference model written in Python",
        }],
        "checks": checks,
        "not_applicable": na,
        "notes": "All checks: ./check <id> --tier quick|thorough; exit 0 / 1 (+VIOLATION line) / 2 harness error. "
                 "Known findings: /verif/known_findings.json. Seeded property-breaking changes: /verif/seeded/.",
    }
    with open(os.path.join(VERIF, "MANIFEST.json"), "w") as fh:
        json.dump(man, fh, indent=1)
    print("MANIFEST.json: %d checks, %d not_applicable" % (len(checks), len(na)))


if __name__ == "__main__":
    main()
