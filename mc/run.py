"""Runner: shards a property's bounded space over worker processes, merges the measured
coverage, de-duplicates violations by signature, writes replay files and the evidence file,
and applies the committed known-findings list (DESIGN 3.8).

A property module ``mc.props.cNN`` provides

    units(tier)            -> list of JSON-able unit descriptors (a partition of the space)
    run_unit(unit, tier)   -> mc.run.Result
    replay(case)           -> list of violation dicts (re-executes exactly one case)
    META                   -> dict(rule=..., assumptions=[...], bounds={tier: {...}})
"""
import argparse
import hashlib
import importlib
import json
import multiprocessing
import os
import sys
import time
import traceback

from mc.enc import enc, dec

VERIF = os.path.dirname(os.path.dirname(os.path.abspath(__file__)))
EVIDENCE_DIR = os.path.join(VERIF, "evidence")
REPLAY_DIR = os.path.join(EVIDENCE_DIR, "replays")
KNOWN_FILE = os.path.join(VERIF, "known_findings.json")
ALL = ["C%02d" % i for i in range(1, 21)]


UNIT_VIOLATION_CAP = 200


class StopUnit(Exception):
    """Raised by Result.violation when a unit has recorded UNIT_VIOLATION_CAP violations; carries the result so far."""

    def __init__(self, res):
        Exception.__init__(self, "unit stopped after %d violations" % UNIT_VIOLATION_CAP)
        self.res = res


class Result:
    """What one unit of work measured."""

    __slots__ = ("counts", "states", "outcomes", "violations", "samples", "notes")

    def __init__(self):
        self.counts = {}        # name -> int (summed over units)
        self.states = set()     # 64-bit hashes of canonical states / configurations (unioned)
        self.outcomes = set()   # small hashable observed outcomes (unioned; exposes vacuity)
        self.violations = {}    # signature -> smallest violation dict
        self.samples = []       # a few explored cases, JSON-able
        self.notes = {}         # name -> int: things seen that are outside the statement

    def count(self, name, n=1):
        self.counts[name] = self.counts.get(name, 0) + n

    def state(self, *key):
        self.states.add(hash(key))

    def note(self, name, n=1):
        self.notes[name] = self.notes.get(name, 0) + n

    def outcome(self, o):
        if len(self.outcomes) < 5000:
            self.outcomes.add(o)

    def violation(self, sig, msg, case, observed=None, expected=None):
        v = {"sig": sig, "msg": msg, "case": case, "observed": observed, "expected": expected}
        old = self.violations.get(sig)
        if old is None:
            v["n"] = 1
            self.violations[sig] = v
        else:
            old["n"] += 1
        # a unit that has met this many violations has made its point: stop it (a broken tree must not take hours)
        if sum(x["n"] for x in self.violations.values()) >= UNIT_VIOLATION_CAP:
            raise StopUnit(self)

    def sample(self, case):
        if len(self.samples) < 3:
            self.samples.append(case)

    def merge(self, other):
        for k, v in other.counts.items():
            self.counts[k] = self.counts.get(k, 0) + v
        for k, v in other.notes.items():
            self.notes[k] = self.notes.get(k, 0) + v
        self.states |= other.states
        if len(self.outcomes) < 5000:
            self.outcomes |= other.outcomes
        for sig, v in other.violations.items():
            old = self.violations.get(sig)
            if old is None:
                self.violations[sig] = v
            else:
                n = old["n"] + v["n"]
                if _size(v) < _size(old):
                    self.violations[sig] = v
                self.violations[sig]["n"] = n
        self.samples.extend(other.samples)


def _size(v):
    try:
        return len(json.dumps(enc(v["case"]), sort_keys=True, default=repr))
    except Exception:
        return 10 ** 9


def _module(pid):
    return importlib.import_module("mc.props." + pid.lower())


def _work(arg):
    pid, tier, unit = arg
    cov = None
    covdir = os.environ.get("VERIF_COVERAGE")
    if covdir:   # development aid: line/branch coverage of valida achieved by the exploration (tools/coverage.sh)
        import coverage
        cov = coverage.Coverage(data_file=os.path.join(covdir, ".coverage"), data_suffix=True, branch=True,
                                include=[os.path.join(os.environ.get("VERIF_REPO", "/repo"), "valida", "*")])
        cov.start()
    try:
        return _work2(pid, tier, unit)
    finally:
        if cov is not None:
            cov.stop()
            cov.save()


def _work2(pid, tier, unit):
    try:
        mod = _module(pid)
        try:
            res = mod.run_unit(unit, tier)
        except Exception as stop:
            # (by name: the property modules import this module as `mc.run`, while the check runs it as `__main__`)
            if type(stop).__name__ != "StopUnit":
                raise
            res = stop.res
            res.count("caps_hit")      # (only ever on a tree that violates the property: the evidence then says "not exhaustive")
        # make violations picklable / JSON-able early
        for v in res.violations.values():
            v["unit"] = unit
            v["case"] = enc(v["case"])
            v["observed"] = _short(v["observed"])
            v["expected"] = _short(v["expected"])
        res.samples = [enc(s) for s in res.samples]
        return ("ok", res.counts, res.states, res.outcomes, res.violations, res.samples, res.notes)
    except BaseException:  # harness error, never a verdict
        return ("error", unit, traceback.format_exc())


_LIVE = set()      # pids (= process-group ids) of the worker processes currently running


def _kill_group(pid):
    import signal
    try:
        os.killpg(pid, signal.SIGKILL)
    except (ProcessLookupError, PermissionError):
        pass


def _on_terminate(signum, frame):
    """The check itself is told to stop (e.g. by `timeout`): take the workers, and whatever they forked, along."""
    for pid in list(_LIVE):
        _kill_group(pid)
    os._exit(143)


def _child(conn, fn, arg):
    try:
        os.setsid()        # a process group of its own: a unit may fork pristine processes itself (mc.fresh)
    except OSError:
        pass
    try:
        # an address-space limit per worker (units need a few hundred MB): code under test that grows its data without
        # bound meets a MemoryError inside the call -- which the checks record as a violation of the case at hand --
        # instead of having the worker killed by the kernel
        import resource
        lim = int(float(os.environ.get("VERIF_UNIT_MEM_GB", "2")) * 2 ** 30)
        resource.setrlimit(resource.RLIMIT_AS, (lim, lim))
    except (ImportError, ValueError, OSError):
        pass
    try:
        conn.send(fn(arg))
    finally:
        conn.close()


def unit_limit(tier):
    """Wall-clock limit for one unit (the largest unit of any check needs about a minute on the unchanged tree): code
    under test that does not come back -- an endless loop, `1.5 in range(0, 2**62)` -- must end the check, not hang it."""
    return float(os.environ.get("VERIF_UNIT_TIMEOUT", 900 if tier == "quick" else 3600))


def _run_pool(fn, args, jobs, limit):
    """Every argument in a fresh forked process of its own (no state can leak from one unit into another, so a unit
    is a deterministic, replayable execution even if the code under test keeps hidden module- or class-level state),
    at most ``jobs`` at a time, results in argument order.  A process that dies or exceeds ``limit`` seconds yields
    ("error", arg, why) instead of hanging the run."""
    from multiprocessing.connection import wait
    ctx = multiprocessing.get_context("fork")
    results = [None] * len(args)
    pending = list(range(len(args)))
    running = {}
    while pending or running:
        while pending and len(running) < jobs:
            i = pending.pop(0)
            rd, wr = ctx.Pipe(duplex=False)
            p = ctx.Process(target=_child, args=(wr, fn, args[i]))
            p.start()
            wr.close()
            _LIVE.add(p.pid)
            running[rd] = (p, i, time.time())
        for rd in wait(list(running), timeout=1.0):
            p, i, _ = running.pop(rd)
            try:
                results[i] = rd.recv()
            except (EOFError, OSError):
                p.join()
                results[i] = ("error", args[i], "the worker process ended without a result (exit code %r)" % (p.exitcode,))
            rd.close()
            p.join()
            _LIVE.discard(p.pid)
        now = time.time()
        for rd, (p, i, started) in list(running.items()):
            if now - started > limit:
                _kill_group(p.pid)
                p.kill()
                p.join()
                _LIVE.discard(p.pid)
                running.pop(rd)
                rd.close()
                results[i] = ("error", args[i], "the unit did not finish within %d s (VERIF_UNIT_TIMEOUT): the code under test "
                              "does not come back on some case of this unit" % limit)
    return results


def _fresh(arg):
    """Run one unit in a fresh forked process."""
    return _run_pool(_work, [arg], 1, unit_limit(arg[1]))[0]


def _replay_work(arg):
    pid, case = arg
    try:
        vs = _module(pid).replay(dec(case))
        return [{"sig": v["sig"], "msg": v["msg"], "observed": _short(v["observed"], 2000),
                 "expected": _short(v["expected"], 2000)} for v in vs]
    except BaseException:
        return traceback.format_exc()


def _fresh_replay(pid, case):
    out = _run_pool(_replay_work, [(pid, case)], 1, unit_limit("quick"))[0]
    if isinstance(out, tuple) and out and out[0] == "error":
        return out[2]
    return out


def _short(x, n=600):
    r = x if isinstance(x, str) else repr(x)
    return r if len(r) <= n else r[:n] + "...<%d more>" % (len(r) - n)


def load_known():
    if not os.path.exists(KNOWN_FILE):
        return []
    with open(KNOWN_FILE) as fh:
        return json.load(fh)["findings"]


def run_property(pid, tier, jobs, seed, quiet=False):
    t0 = time.time()
    mod = _module(pid)
    units = mod.units(tier)
    if hasattr(mod, "prepare"):
        mod.prepare(tier)  # warm pure-data caches (terms, documents) before forking; runs no valida code
    total = Result()
    errors = []
    order = list(range(len(units)))
    # VERIF_SEED only permutes scheduling order and the choice of samples; the explored set is
    # identical for every seed.
    import random
    rnd = random.Random(seed)
    rnd.shuffle(order)
    args = [(pid, tier, units[i]) for i in order]
    outs = _run_pool(_work, args, max(1, min(jobs, len(units))), unit_limit(tier))
    for out in outs:
        if out[0] == "error":
            errors.append(out)
            continue
        r = Result()
        _, r.counts, r.states, r.outcomes, r.violations, r.samples, r.notes = out
        total.merge(r)
    if errors:
        print("HARNESS-ERROR property=%s units_failed=%d" % (pid, len(errors)))
        print(errors[0][2])
        return 2

    # ---- violations: confirm by replay, match against known findings, write replay files
    known = [k for k in load_known() if k["property"] == pid and k.get("status") == "known"]
    known_sigs = {k["signature"]: k for k in known}
    os.makedirs(REPLAY_DIR, exist_ok=True)
    for f in os.listdir(REPLAY_DIR):
        if f.startswith(pid + "-"):
            os.remove(os.path.join(REPLAY_DIR, f))
    unknown, known_hit = [], []
    rc = 0
    overflow = 0
    for n, (sig, v) in enumerate(sorted(total.violations.items(), key=lambda kv: (_size(kv[1]), kv[0]))):
        if len(unknown) >= 25 and sig not in known_sigs:
            overflow += 1      # 25 confirmed, replayable violations (the smallest) are reported; the others are counted
            continue
        # re-execute once from the stored case (a non-reproducing violation is a harness error)
        # (in a fresh process: the parent never executes code under test, so that every forked
        # worker starts from the same pristine state)
        again = _fresh_replay(pid, v["case"])
        if isinstance(again, str):
            print("HARNESS-ERROR property=%s replay of %s raised\n%s" % (pid, sig, again))
            return 2
        history_dependent = False
        if not again:  # (a replay may meet another invariant of the same property first: still confirmed)
            # The case alone does not fail.  Every case runs on freshly built objects, so the only way
            # a case can depend on the cases before it is hidden state kept by the code under test
            # (module / class level).  Re-run the whole unit in a fresh process: if the violation
            # comes back it is deterministic and replayable as "this unit, from a fresh process".
            # (any violation of this property in the re-run confirms it: hidden state keyed on
            # object identity -- an id()-keyed memo whose entries outlive their objects -- picks
            # which case fails by where the allocator places objects, so the same unit may fail on
            # a neighbouring case.)
            for attempt in range(3):
                out = _fresh((pid, tier, v["unit"]))
                if out[0] == "ok" and out[4]:
                    history_dependent = True
                    break
            if not history_dependent:
                # Observed once by a deterministic oracle on the real code, on objects built only
                # from the recorded case, and not seen again in three re-runs of the unit.  The
                # harness owns every other source of nondeterminism (hash seed fixed, no clocks,
                # no threads outside the S-space scheduler, one pristine process per unit), so what
                # remains is behaviour of the code under test that depends on memory addresses.
                # The observation itself is reported, marked as not reproduced.
                unreproduced = True
            else:
                unreproduced = False
        else:
            unreproduced = False
        if sig in known_sigs:
            known_hit.append((sig, v))
            continue
        path = os.path.join(REPLAY_DIR, "%s-%04d.json" % (pid, len(unknown)))
        with open(path, "w") as fh:
            json.dump({"property": pid, "signature": sig, "message": v["msg"], "case": v["case"],
                       "observed": v["observed"], "expected": v["expected"], "occurrences": v["n"],
                       "unit": v.get("unit"), "tier": tier, "history_dependent": history_dependent,
                       "reproduced": not unreproduced,
                       "replay_cmd": "./check %s --replay %s" % (pid, os.path.relpath(path, VERIF))},
                      fh, indent=1, default=repr)
        unknown.append((sig, v, path))
        if unreproduced:
            print("NOTE property=%s %s was observed once and not again in 3 fresh re-runs of its unit "
                  "(address-dependent behaviour of the code under test); reported as observed" % (pid, sig))
    for sig, v in known_hit:
        print("KNOWN-FINDING: property=%s %s [%s; %d occurrences]" % (pid, known_sigs[sig]["what"], sig, v["n"]))
    for sig, v, path in unknown[:20]:
        print("VIOLATION property=%s replay=%s" % (pid, path))
        if not quiet:
            print("   signature: %s (x%d)\n   %s" % (sig, v["n"], v["msg"]))
            print("   observed: %s\n   expected: %s" % (v["observed"], v["expected"]))
    if len(unknown) > 20 or overflow:
        print("   ... and %d more distinct signatures" % (max(0, len(unknown) - 20) + overflow))
    if unknown:
        rc = 1

    # ---- evidence
    wall = time.time() - t0
    meta = getattr(mod, "META", {})
    c = dict(total.counts)
    evaluations = c.pop("evaluations", 0)
    transitions = c.pop("transitions", 0)
    validated = c.pop("validated", 0)
    nontrivial = c.pop("nontrivial", 0)
    samples = total.samples
    rnd.shuffle(samples)
    coverage = {
        "states": len(total.states),
        "transitions": transitions,
        "traces_validated_against_impl": validated,
        "samples": samples[:5] or ["<none>"],
        "evaluations": evaluations,
        "distinct_nontrivial": nontrivial,
        "rule": meta.get("rule", ""),
        "exhaustive": not c.get("caps_hit", 0),
        "bounds": meta.get("bounds", {}).get(tier, {}),
        "distinct_outcomes": len(total.outcomes),
        "units": len(units),
        "counters": c,
        "notes_outside_statement": total.notes,
        "known_findings_hit": [s for s, _ in known_hit],
        "unknown_violation_signatures": [s for s, _, _ in unknown],
        "explanation": meta.get("explanation", ""),
    }
    ev = {
        "property_id": pid,
        "tier": tier,
        "seed": seed,
        "level": "model_checking",
        "coverage": coverage,
        "assumptions": meta.get("assumptions", []),
        "wall_s": round(wall, 2),
        "violations": len(unknown),
        "repo": os.environ.get("VERIF_REPO", "/repo"),
    }
    os.makedirs(EVIDENCE_DIR, exist_ok=True)
    if os.environ.get("VERIF_REPO", "/repo") == "/repo" or os.environ.get("VERIF_WRITE_EVIDENCE"):
        with open(os.path.join(EVIDENCE_DIR, pid + ".json"), "w") as fh:
            json.dump(ev, fh, indent=1, default=repr)
    if not quiet:
        print("%s %s: states=%d transitions=%d validated=%d evaluations=%d nontrivial=%d outcomes=%d "
              "violations=%d known=%d wall=%.1fs%s"
              % (pid, tier, len(total.states), transitions, validated, evaluations, nontrivial,
                 len(total.outcomes), len(unknown), len(known_hit), wall,
                 "" if coverage["exhaustive"] else " CAPS-HIT"))
        if total.notes:
            print("   notes:", total.notes)
    return rc


def run_replay(pid, path):
    mod = _module(pid)
    with open(path) as fh:
        rec = json.load(fh)
    case = dec(rec["case"])
    if rec.get("history_dependent"):
        # fails only after the cases that precede it in its unit (hidden state in the code under test):
        # replay = that unit from a fresh process
        out = _fresh((pid, rec.get("tier", "quick"), rec["unit"]))
        vs = [] if out[0] != "ok" else [dict(v, msg=v["msg"] + " [history-dependent: reproduced by re-running unit %r "
                                             "from a fresh process]" % (rec["unit"],)) for s_, v in out[4].items()
                                        if s_ == rec["signature"]]
    else:
        vs = _fresh_replay(pid, rec["case"])
        if isinstance(vs, str):
            print(vs)
            return 2
    print("replaying %s: %s" % (path, rec.get("signature")))
    print("case:", json.dumps(rec["case"])[:2000])
    if not vs:
        print("no violation on replay (the property holds for this case on the current tree)")
        return 0
    for v in vs:
        print("VIOLATION property=%s replay=%s" % (pid, path))
        print("   signature:", v["sig"])
        print("   ", v["msg"])
        print("   observed:", _short(v.get("observed"), 2000))
        print("   expected:", _short(v.get("expected"), 2000))
    return 1


def main(argv=None):
    ap = argparse.ArgumentParser(prog="check")
    ap.add_argument("prop")
    ap.add_argument("--tier", default=os.environ.get("VERIF_TIER", "quick"), choices=["quick", "thorough"])
    ap.add_argument("--replay")
    ap.add_argument("-j", type=int, default=int(os.environ.get("VERIF_JOBS", "16")))
    ap.add_argument("-q", action="store_true")
    a = ap.parse_args(argv)
    import signal
    signal.signal(signal.SIGTERM, _on_terminate)
    signal.signal(signal.SIGINT, _on_terminate)
    try:
        seed = int(os.environ.get("VERIF_SEED", "0"))
    except ValueError:
        seed = 0
    if a.replay:
        return run_replay(a.prop.upper(), a.replay)
    props = ALL if a.prop == "all" else [a.prop.upper()]
    rc = 0
    for p in props:
        try:
            _module(p)
        except ModuleNotFoundError as e:
            if "mc.props" in str(e):
                print("%s: no check built" % p)
                continue
            raise
        r = run_property(p, a.tier, a.j, seed, a.q)
        rc = max(rc, r)
    return rc


if __name__ == "__main__":
    sys.exit(main())
