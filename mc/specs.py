"""Spec spellings of terms (C09, C10, C11, C13, C16, C19): every way the same DSL term can be
written as a `from_spec` structure."""
import itertools
import json
import re

from mc import terms as T
from mc.enc import fresh

TYPE_NAME = {int: "int", float: "float", str: "str", list: "list", dict: "dict", bool: "bool"}
import pathlib  # noqa: E402
TYPE_NAME[pathlib.Path] = "path"


def cases(tok):
    """lower, UPPER, Capitalised, aLtErNaTiNg"""
    alt = "".join(c.upper() if i % 2 else c.lower() for i, c in enumerate(tok))
    out = []
    for v in (tok.lower(), tok.upper(), tok.capitalize(), alt):
        if v not in out:
            out.append(v)
    return out


PREP_TOKENS = {"length": ["length", "len"], "dtype": ["dtype", "type"]}
CALL_ALIASES = {"in_": ["in_", "in"], "equal_to": ["equal_to", "eq"], "less_than": ["less_than", "lt"],
                "greater_than": ["greater_than", "gt"], "less_than_or_equal_to": ["less_than_or_equal_to", "lte"],
                "greater_than_or_equal_to": ["greater_than_or_equal_to", "gte"]}


def key_spellings(cls, call, full=True):
    """All spellings of the spec key '<datum>[.<prep>].<callable>'."""
    datum = T.KIND[cls]
    prep = T.PREP[cls]
    toks = [[datum], PREP_TOKENS[prep] if prep else None, CALL_ALIASES.get(call, [call])]
    toks = [t for t in toks if t is not None]
    out = []
    for names in itertools.product(*toks):
        if full:
            for cased in itertools.product(*[cases(n) for n in names]):
                out.append(".".join(cased))
        else:
            out.append(".".join(names))
            out.append(".".join(n.upper() for n in names))
    seen, uniq = set(), []
    for k in out:
        if k not in seen:
            seen.add(k)
            uniq.append(k)
    return uniq


def type_spellings(a):
    """type argument as type object, lower-case name, upper-case name (and 'map' for dict)."""
    if isinstance(a, type) and a in TYPE_NAME:
        out = [a, TYPE_NAME[a], TYPE_NAME[a].upper()]
        if a is dict:
            out.append("map")
        return out
    return None


_PATH_TOKEN = re.compile("path", re.IGNORECASE)


def esc_key(k):
    r"""The escaped spelling of a literal mapping key: a backslash before every 'path' (any letter case)."""
    return _PATH_TOKEN.sub(lambda m: "\\" + m.group(), k) if isinstance(k, str) else k


def _has_path_key(d):
    return any(isinstance(k, str) and _PATH_TOKEN.search(k) for k in d)


def _must_escape(d):
    """A literal mapping that would otherwise be read as a data path (one key whose first dot-delimited token is
    'path'), or that has a key containing the escape code itself."""
    if any(isinstance(k, str) and re.search(r"\\path", k, re.IGNORECASE) for k in d):
        return True
    if len(d) == 1:
        k = next(iter(d))
        return isinstance(k, str) and k.split(".")[0].lower() == "path"
    return False


def _has_path_arg(x):
    if T.is_path_arg(x):
        return True
    if isinstance(x, (list, tuple)):
        return any(_has_path_arg(i) for i in x)
    if isinstance(x, dict):
        return any(_has_path_arg(v) for v in x.values())
    return False


def lit_map_spec(d, escape=None, level=0):
    """Spec spelling of a literal mapping at a place where the parser looks for data-path specs: level 0 = an
    argument, level 1 = an item of a list argument / a value of a mapping argument.  With an escaped key the whole
    mapping is taken literally (keys un-escaped, values verbatim); escape=None: escape when required, or when some
    key contains 'path' and no value is a path argument."""
    if escape is None:
        escape = _must_escape(d) or (_has_path_key(d) and not _has_path_arg(d))
    if escape:
        return {esc_key(k): arg_spec_inner(v) for k, v in d.items()}
    if level >= 1:
        return arg_spec_inner(d)
    # an argument with no escaped key: its values are looked at in turn (one level)
    return {k: _level1(v) for k, v in d.items()}


def item_spec(v):
    """Spelling of one argument that is an item of the spec value (argument list / keyword mapping)."""
    return _level1(v)


def _level1(v):
    if T.is_path_arg(v):
        return path_spec(v[1])
    if isinstance(v, dict):
        return lit_map_spec(v, level=1)
    return arg_spec_inner(v)


def arg_spec_inner(a):
    """Below the places the parser looks at: verbatim."""
    if isinstance(a, list):
        return [arg_spec_inner(i) for i in a]
    if isinstance(a, tuple):
        return tuple(arg_spec_inner(i) for i in a)
    if isinstance(a, dict):
        return {k: arg_spec_inner(v) for k, v in a.items()}
    return a


def lit_map_variants(d, level=0):
    """Every spelling of a literal mapping: each non-empty subset of its 'path'-containing keys escaped (one escaped
    key makes the whole mapping literal), and none escaped where that is allowed."""
    ks = [k for k in d if isinstance(k, str) and _PATH_TOKEN.search(k)]
    out = []
    if not ks:
        return [lit_map_spec(d, level=level)]
    literal_backslash = any(re.search(r"\\path", k, re.IGNORECASE) for k in ks)
    for n in range(len(ks), 0, -1):
        for sub in itertools.combinations(ks, n):
            if literal_backslash and n != len(ks):
                continue
            out.append({(esc_key(k) if k in sub else k): fresh(v) for k, v in d.items()})
    if not _must_escape(d):
        out.append(lit_map_spec(d, escape=False, level=level))
    return out


# literal mapping arguments with 'path' among their keys: alone / first / in the middle / last, in other letter
# cases, with modifiers, twice, with the escape code itself in a literal key, one level down
LITMAPS = [{"path": ["b"]}, {"name": "x", "path": ["b"]}, {"path": ["b"], "name": "x"},
           {"n": 1, "Path.length": ["b"], "z": 2}, {"path": ["a"], "path.first": ["b"]}, {"\\path": ["b"], "k": 1},
           {"q": {"path": ["b"]}}, {"pathological": 1}, {"a": {"path": ["b"]}, "path": 1}, {"k": 1, "PATH": {"path": ["b"]}},
           # below the one level the parser inspects: taken verbatim
           {"opts": {"target": {"path": ["x"]}}}, {"o": [{"path": ["x"]}], "k": 1}, {"m": {"n": {"\\path": ["b"]}}}]


def litmap_cases():
    """(term, spec) for every literal mapping of LITMAPS in every argument position the parser inspects x every
    escaped / unescaped spelling of it."""
    out = []
    for lit in LITMAPS:
        for v in lit_map_variants(lit, 0):
            out.append((T.leaf("Value", "equal_to", lit), {"value.equal_to": v}))
            out.append((T.leaf("Value", "not_equal_to", lit), {"VALUE.Not_Equal_To": v}))
        for v in lit_map_variants(lit, 1):
            out.append((T.leaf("Value", "in_", [lit, 1]), {"value.in": [v, 1]}))
            out.append((T.leaf("Value", "in_", [0, lit]), {"value.in_": (0, v)}))
            out.append((T.leaf("Value", "items_contain", q=lit), {"value.items_contain": {"q": v}}))
            out.append((T.leaf("Value", "items_contain", p=1, q=lit), {"value.items_contain": {"p": 1, "q": v}}))
            out.append((T.leaf("Value", "equal_to_approx", value=lit), {"value.equal_to_approx": {"value": v}}))
    return out


def arg_spec(a):
    """A literal argument as it appears in a spec (path-valued arguments as {'path..': parts}; literal mappings
    that look like a data path escaped)."""
    if T.is_path_arg(a):
        return path_spec(a[1])
    if isinstance(a, list):
        return [_level1(i) for i in a]
    if isinstance(a, tuple):
        return tuple(_level1(i) for i in a)
    if isinstance(a, dict):
        return lit_map_spec(a)
    return a


def _type_variants(args):
    """Spellings of an argument list in which type objects may be written as names: the
    canonical one (objects), all-lower names, all-upper names, 'map'."""
    def conv(a, how):
        if isinstance(a, type) and a in TYPE_NAME:
            if how == "obj":
                return a
            if how == "lower":
                return TYPE_NAME[a]
            if how == "upper":
                return TYPE_NAME[a].upper()
            if how == "map":
                return "map" if a is dict else TYPE_NAME[a]
        if isinstance(a, list):
            return [conv(i, how) for i in a]
        return a
    has_type = any(isinstance(x, type) for a in args for x in (a if isinstance(a, list) else [a]))
    if not has_type:
        return [list(args)]
    out = []
    for how in ("obj", "lower", "upper", "map"):
        v = [conv(a, how) for a in args]
        if v not in out:
            out.append(v)
    return out


def value_spellings(t, type_names):
    """All spellings of the spec value for leaf term t (argument shape per signature).
    type_names: whether type arguments may be written as names (dtype classes, *is_instance)."""
    _, cls, call, args, kwargs = t
    kind, names = T.SIG[call]
    sp = arg_spec if kind == "one" else item_spec      # the sole argument / an item of the argument list or mapping
    args = [sp(a) for a in args]
    kw = [(k, sp(v)) for k, v in kwargs]
    variants = _type_variants(args) if type_names else [list(args)]
    out = []
    if kind == "none":
        return [None]
    if kind == "one":
        vals = [v[0] for v in variants] if args else [kw[0][1]]
        return vals
    if kind == "multi":
        for v in variants:
            full = list(v) + [val for _, val in kw]
            out.append(list(full))                       # positional list
            out.append(tuple(full))                      # positional tuple
            out.append(dict(zip(names, full)))           # keyword mapping
        return out
    if kind == "varpos":
        return [list(v) for v in variants]
    if kind == "varkw":
        return [dict(kw)]
    raise ValueError(kind)


def cond_spec(t, key=None, value=None):
    """Canonical spec of a condition term (lower-case long names, keyword mappings)."""
    if t[0] == "null":
        return {}
    if t[0] in ("and", "or", "xor"):
        return {t[0]: [cond_spec(t[1]), cond_spec(t[2])]}
    _, cls, call, args, kwargs = t
    if key is None:
        key = "%s.%s" % (T.SPEC_LABEL[cls], call)
    if value is None:
        kind, names = T.SIG[call]
        sp = arg_spec if kind == "one" else item_spec
        a = [sp(x) for x in args]
        kw = {k: sp(v) for k, v in kwargs}
        if kind == "none":
            value = None
        elif kind == "one":
            value = a[0] if a else next(iter(kw.values()))
        elif kind == "multi":
            value = dict(zip(names, a))
            value.update(kw)
        elif kind == "varpos":
            value = list(a)
        else:
            value = kw
    return {key: fresh(value) if not isinstance(value, type) else value}


# --------------------------------------------------------------------------- parts and paths
def part_spec(p, style="long"):
    """style: 'long' (key:/index:/value: long forms), 'short' (dotted shorthands where the
    condition is a single leaf), 'condition' (one combined `condition:` entry)."""
    tag = p[0]
    if tag == "prim":
        return p[1]
    typ = {"map": "map_value", "list": "list_value", "mol": "map_or_list_value"}[tag]
    names = {"map": ("key", "value"), "list": ("index", "value"), "mol": ("key", "index", "value")}[tag]
    cls_of = {"key": "Key", "index": "Index", "value": "Value"}
    spec = {"type": typ}
    for n, c in zip(names, p[1:]):
        if c is None:
            continue
        if c[0] == "lit":
            c = T.leaf(cls_of[n], "equal_to", c[1])
        if style == "short" and c[0] == "leaf":
            cs = cond_spec(c)
            k, v = next(iter(cs.items()))
            spec[k] = v
        else:
            spec[n] = cond_spec(c)
    label = p[-1]
    if label:
        spec["label"] = label
    return spec


def path_key(datum, multi, order):
    toks = ["path"]
    steps = [datum, multi] if order == "dm" else [multi, datum]
    toks += [s for s in steps if s]
    return ".".join(toks)


def path_spec(pt, style="long"):
    _, parts, datum, multi, order = pt
    return {path_key(datum, multi, order): [part_spec(p, style) for p in parts]}


def rule_spec(rt, style="long", doc_form=None, cast_form=True):
    _, p, c, cast, doc = rt
    spec = {"path": [part_spec(x, style) for x in p[1]], "condition": cond_spec(c)}
    if cast == "empty":
        spec["cast"] = {}
    elif cast:
        spec["cast"] = {a: b for a, b in cast}
    if doc_form is not None:
        spec["doc"] = doc_form
    return spec


def schema_yaml_flow(rule_specs):
    return json.dumps({"rules": rule_specs})


def jsonable(x):
    """Is x expressible as JSON/YAML text (no type objects, tuples, non-str keys ...)?"""
    try:
        return json.loads(json.dumps(x)) == x and _no_tuples(x)
    except (TypeError, ValueError):
        return False


def _no_tuples(x):
    if isinstance(x, tuple):
        return False
    if isinstance(x, list):
        return all(_no_tuples(i) for i in x)
    if isinstance(x, dict):
        return all(isinstance(k, str) and _no_tuples(v) for k, v in x.items())
    return True
