"""Plain-data terms for every program the explorer generates, and ``build`` which turns a term
into a fresh real valida object through the *Python API* (DESIGN 3.1).

cond   ::= ("null",)
         | ("leaf", cls, callable, args, kwargs)        cls in CLASSES; args tuple; kwargs tuple of (k, v)
         | ("and"|"or"|"xor", cond, cond)
arg    ::= JSON-like literal | type object | ("$path", path)         (path-valued argument)
part   ::= ("prim", p)
         | ("map",  key, value, label)                  key/value: None | cond | ("lit", v)
         | ("list", index, value, label)
         | ("mol",  key, index, value, label)
path   ::= ("path", (part, ...), datum, multi, order)   datum in DATUMS, multi in MULTIS,
                                                         order "dm" (datum first) or "md"
rule   ::= ("rule", path, cond, cast, doc)              cast: tuple of (from, to) names
schema ::= ("schema", (rule, ...))
"""
import mc  # noqa: F401  (sets sys.path for VERIF_REPO)

from valida import conditions as C
from valida import datapath as DP
from valida.rules import Rule
from valida.schema import Schema
from valida.casting import CAST_LOOKUP, CAST_DTYPE_LOOKUP

CLASSES = {
    "Value": C.Value, "ValueLength": C.ValueLength, "ValueDataType": C.ValueDataType,
    "Key": C.Key, "KeyLength": C.KeyLength, "KeyDataType": C.KeyDataType, "Index": C.Index,
}
KIND = {"Value": "value", "ValueLength": "value", "ValueDataType": "value",
        "Key": "key", "KeyLength": "key", "KeyDataType": "key", "Index": "index"}
PREP = {"Value": None, "ValueLength": "length", "ValueDataType": "dtype",
        "Key": None, "KeyLength": "length", "KeyDataType": "dtype", "Index": None}
# how the class is reached through the DSL
DSL = {"Value": lambda: C.Value, "ValueLength": lambda: C.Value.length,
       "ValueDataType": lambda: C.Value.dtype, "Key": lambda: C.Key,
       "KeyLength": lambda: C.Key.length, "KeyDataType": lambda: C.Key.dtype,
       "Index": lambda: C.Index}
SPEC_LABEL = {"Value": "value", "ValueLength": "value.length", "ValueDataType": "value.dtype",
              "Key": "key", "KeyLength": "key.length", "KeyDataType": "key.dtype", "Index": "index"}

GENERAL = [
    "equal_to", "not_equal_to", "less_than", "greater_than", "less_than_or_equal_to",
    "greater_than_or_equal_to", "in_", "not_in", "in_range", "not_in_range", "equal_to_approx",
    "factor_of", "has_factor", "truthy", "falsy", "null", "is_instance",
]
MAPC = [
    "keys_contain", "keys_contain_any_of", "keys_contain_all_of", "keys_contain_N_of",
    "keys_contain_at_least_N_of", "keys_contain_at_most_N_of", "keys_contain_one_of",
    "keys_contain_at_least_one_of", "keys_contain_at_most_one_of", "keys_equal_to",
    "keys_is_instance", "items_contain", "allowed_keys", "required_keys", "forbidden_keys",
]
CALLABLES = {c: (GENERAL + MAPC if c in ("Value", "Key") else GENERAL) for c in CLASSES}
ALIASES = {"eq": "equal_to", "lt": "less_than", "gt": "greater_than",
           "lte": "less_than_or_equal_to", "gte": "greater_than_or_equal_to"}

# signature classes (how arguments are passed)
SIG = {}
for _n in ("equal_to", "not_equal_to", "less_than", "greater_than", "less_than_or_equal_to",
           "greater_than_or_equal_to", "in_", "not_in", "factor_of", "has_factor"):
    SIG[_n] = ("one", "value")
SIG["keys_contain"] = ("one", "key")
SIG["keys_contain_at_least_one_of"] = ("one", "keys")
SIG["keys_contain_at_most_one_of"] = ("one", "keys")
SIG["in_range"] = ("multi", ("lower", "upper"))
SIG["not_in_range"] = ("multi", ("lower", "upper"))
SIG["equal_to_approx"] = ("multi", ("value", "tolerance"))
for _n in ("keys_contain_N_of", "keys_contain_at_least_N_of", "keys_contain_at_most_N_of"):
    SIG[_n] = ("multi", ("N", "keys"))
for _n in ("truthy", "falsy", "null"):
    SIG[_n] = ("none", ())
for _n in ("is_instance", "keys_contain_any_of", "keys_contain_all_of", "keys_contain_one_of",
           "keys_equal_to", "keys_is_instance", "allowed_keys", "required_keys", "forbidden_keys"):
    SIG[_n] = ("varpos", ())
SIG["items_contain"] = ("varkw", ())

DATUMS = (None, "length", "dtype", "map_keys", "map_values")
MULTIS = (None, "first", "last", "single", "all")

NULL = ("null",)
_PY_TYPES = {"str": str, "int": int, "bool": bool}


def leaf(cls, call, *args, **kwargs):
    return ("leaf", cls, call, tuple(args), tuple(kwargs.items()))


def is_path_arg(a):
    return isinstance(a, tuple) and len(a) == 2 and a[0] == "$path"


def build_arg(a):
    if is_path_arg(a):
        return build_path(a[1])
    if isinstance(a, list):
        return [build_arg(i) for i in a]
    if isinstance(a, dict):
        return {k: build_arg(v) for k, v in a.items()}
    if isinstance(a, tuple):
        return tuple(build_arg(i) for i in a)
    return a


def build_cond(t):
    tag = t[0]
    if tag == "null":
        return C.NullCondition()
    if tag == "leaf":
        _, cls, call, args, kwargs = t
        return getattr(DSL[cls](), call)(*[build_arg(a) for a in args],
                                         **{k: build_arg(v) for k, v in kwargs})
    if tag == "and":
        return build_cond(t[1]) & build_cond(t[2])
    if tag == "or":
        return build_cond(t[1]) | build_cond(t[2])
    if tag == "xor":
        return build_cond(t[1]) ^ build_cond(t[2])
    raise ValueError(t)


def _part_arg(x):
    if x is None:
        return None
    if x[0] == "lit":
        return x[1]
    return build_cond(x)


def build_part(t):
    tag = t[0]
    if tag == "prim":
        return t[1]
    if tag == "map":
        _, key, value, label = t
        return DP.MapValue(key=_part_arg(key), value=_part_arg(value), label=label)
    if tag == "list":
        _, index, value, label = t
        return DP.ListValue(index=_part_arg(index), value=_part_arg(value), label=label)
    if tag == "mol":
        _, key, index, value, label = t
        return DP.MapOrListValue(key=_part_arg(key), index=_part_arg(index),
                                 value=_part_arg(value), label=label)
    raise ValueError(t)


def path(parts=(), datum=None, multi=None, order="dm"):
    return ("path", tuple(parts), datum, multi, order)


def build_path(t, source_data=None):
    _, parts, datum, multi, order = t
    kw = {}
    if source_data is not None:
        kw["source_data"] = source_data
    p = DP.DataPath(*[build_part(i) for i in parts], **kw)
    steps = [datum, multi] if order == "dm" else [multi, datum]
    for s in steps:
        if s is not None:
            p = getattr(p, s)()
    return p


def build_cast(cast):
    if cast == "empty":      # a declared-but-empty cast mapping
        return {}
    if not cast:
        return None
    # the way a caller writes it through the Python API: the builtin for str -> int, the library's
    # own helper where no builtin does the job (str -> bool)
    return {_PY_TYPES[a]: (int if (a, b) == ("str", "int") else CAST_LOOKUP[(CAST_DTYPE_LOOKUP[a], CAST_DTYPE_LOOKUP[b])])
            for a, b in cast}


def rule(path_t, cond_t, cast=(), doc=None):
    return ("rule", path_t, cond_t, cast if isinstance(cast, str) else tuple(cast), doc)


def build_rule(t):
    _, p, c, cast, doc = t
    return Rule(path=build_path(p), condition=build_cond(c), cast=build_cast(cast), doc=doc)


def build_schema(t):
    return Schema([build_rule(r) for r in t[1]])


def build(t):
    tag = t[0]
    if tag in ("null", "leaf", "and", "or", "xor"):
        return build_cond(t)
    if tag in ("prim", "map", "list", "mol"):
        return build_part(t)
    if tag == "path":
        return build_path(t)
    if tag == "rule":
        return build_rule(t)
    if tag == "schema":
        return build_schema(t)
    raise ValueError(t)


def cond_size(t):
    if t[0] in ("and", "or", "xor"):
        return 1 + cond_size(t[1]) + cond_size(t[2])
    return 1


def cond_kinds(t):
    """Set of datum kinds of the leaves."""
    if t[0] == "null":
        return set()
    if t[0] == "leaf":
        return {KIND[t[1]]}
    return cond_kinds(t[1]) | cond_kinds(t[2])


def show(t):
    """Compact human-readable rendering of a term (for messages)."""
    tag = t[0] if isinstance(t, tuple) and t else None
    if tag == "null":
        return "Null"
    if tag == "leaf":
        _, cls, call, args, kwargs = t
        a = [show(i) for i in args] + ["%s=%s" % (k, show(v)) for k, v in kwargs]
        return "%s.%s(%s)" % (cls, call, ", ".join(a))
    if tag in ("and", "or", "xor"):
        return "(%s %s %s)" % (show(t[1]), tag, show(t[2]))
    if tag == "prim":
        return repr(t[1])
    if tag == "lit":
        return repr(t[1])
    if tag in ("map", "list", "mol"):
        names = {"map": ("key", "value", "label"), "list": ("index", "value", "label"),
                 "mol": ("key", "index", "value", "label")}[tag]
        a = ["%s=%s" % (n, show(v)) for n, v in zip(names, t[1:]) if v is not None]
        return "%s(%s)" % ({"map": "MapValue", "list": "ListValue", "mol": "MapOrListValue"}[tag], ", ".join(a))
    if tag == "path":
        s = "DataPath(%s)" % ", ".join(show(p) for p in t[1])
        steps = [t[2], t[3]] if t[4] == "dm" else [t[3], t[2]]
        for st in steps:
            if st:
                s += ".%s()" % st
        return s
    if tag == "$path":
        return show(t[1])
    if tag == "rule":
        return "Rule(%s, %s%s)" % (show(t[1]), show(t[2]), ", cast=%r" % (t[3],) if t[3] else "")
    if tag == "schema":
        return "Schema([%s])" % ", ".join(show(r) for r in t[1])
    if isinstance(t, type):
        return t.__name__
    return repr(t)
