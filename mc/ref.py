"""Reference model: the meaning of valida terms, written from the property statements and the
names/docstrings of the callables -- it never calls valida (DESIGN 3.3).

``UNDEF`` means "the comparison is not defined for this item"; observably the item then does
not satisfy the condition (C01, second sentence).
"""
import numbers

from mc import terms as T

UNDEF = "UNDEF"


# ------------------------------------------------------------------------------- JSON helpers
def is_num(x):
    return isinstance(x, (int, float)) and not isinstance(x, complex)  # bool is an int


def is_int(x):
    return isinstance(x, int)  # incl. bool


def hashable(x):
    if isinstance(x, (list, dict, set)):
        return False
    if isinstance(x, tuple):
        return all(hashable(i) for i in x)
    return True


def jeq(a, b):
    """JSON equality as Python defines it on JSON-like values (1 == True == 1.0)."""
    return a == b


def ordered(a, b):
    """-1 / 0 / 1 when a and b are comparable by <, else UNDEF."""
    if is_num(a) and is_num(b):
        return (a > b) - (a < b)
    if isinstance(a, str) and isinstance(b, str):
        return (a > b) - (a < b)
    for seq in (list, tuple):
        if isinstance(a, seq) and isinstance(b, seq):
            for x, y in zip(a, b):
                if not jeq(x, y):
                    return ordered(x, y)
            return (len(a) > len(b)) - (len(a) < len(b))
    return UNDEF


def contains(container, d):
    """d in container, or UNDEF."""
    if isinstance(container, str):
        if isinstance(d, str):
            return d in container
        return UNDEF
    if isinstance(container, (list, tuple)):
        return any(x is d or jeq(x, d) for x in container)
    if isinstance(container, dict):
        if not hashable(d):
            return UNDEF
        return any(jeq(k, d) for k in container)
    return UNDEF


def keys_of(d):
    return list(d.keys()) if isinstance(d, dict) else UNDEF


def _count(d, keys):
    if not isinstance(d, dict):
        return UNDEF
    return sum(1 for k in keys if any(jeq(k, j) for j in d))


# ------------------------------------------------------------------- meaning of the callables
def meaning(call, d, args, kwargs):
    """True / False / UNDEF: the documented meaning of callable ``call`` with bound arguments
    applied to datum ``d`` (a JSON-like value, or a type object after the dtype pre-processor).
    """
    kw = dict(kwargs)
    if call in T.ALIASES:
        call = T.ALIASES[call]
    kind, names = T.SIG[call]
    if kind in ("one", "multi"):
        # arguments may be positional or keyword
        names = (names,) if kind == "one" else names
        vals = list(args) + [kw[n] for n in names[len(args):] if n in kw]
        if call == "equal_to_approx" and len(vals) == 1:
            vals.append(1e-8)
        if len(vals) != len(names):
            return UNDEF
    if call == "equal_to":
        return bool(jeq(d, vals[0]))
    if call == "not_equal_to":
        return not jeq(d, vals[0])
    if call in ("less_than", "greater_than", "less_than_or_equal_to", "greater_than_or_equal_to"):
        o = ordered(d, vals[0])
        if o is UNDEF:
            return UNDEF
        return {"less_than": o < 0, "greater_than": o > 0, "less_than_or_equal_to": o <= 0,
                "greater_than_or_equal_to": o >= 0}[call]
    if call == "in_":
        return contains(vals[0], d)
    if call == "not_in":
        c = contains(vals[0], d)
        return UNDEF if c is UNDEF else (not c)
    if call in ("in_range", "not_in_range"):
        lo, hi = vals
        if not (is_int(lo) and is_int(hi)):
            return UNDEF
        inside = is_num(d) and not _is_nan(d) and d == int(d) and lo <= d < hi
        return bool(inside) if call == "in_range" else (not inside)
    if call == "equal_to_approx":
        v, tol = vals
        if not (is_num(d) and is_num(v) and is_num(tol)):
            return UNDEF
        return abs(d - v) < tol
    if call == "factor_of":
        v = vals[0]
        if not (is_num(d) and is_num(v)) or d == 0:
            return UNDEF
        return v % d == 0
    if call == "has_factor":
        v = vals[0]
        if not (is_num(d) and is_num(v)) or v == 0:
            return UNDEF
        return d % v == 0
    if call == "truthy":
        return bool(d)
    if call == "falsy":
        return not d
    if call == "null":
        return True
    if call == "is_instance":
        if not all(isinstance(c, type) for c in args):
            return UNDEF
        return isinstance(d, tuple(args))
    # ---- mapping callables
    if call == "keys_contain":
        if not isinstance(d, dict) or not hashable(vals[0]):
            return UNDEF
        return any(jeq(vals[0], j) for j in d)
    if call == "keys_contain_at_least_one_of" or call == "keys_contain_at_most_one_of":
        keys = vals[0]
        if not isinstance(keys, (list, tuple)) or not all(hashable(k) for k in keys):
            return UNDEF
        n = _count(d, keys)
        if n is UNDEF:
            return UNDEF
        return n >= 1 if call.endswith("least_one_of") else n <= 1
    if call in ("keys_contain_N_of", "keys_contain_at_least_N_of", "keys_contain_at_most_N_of"):
        N, keys = vals
        if not isinstance(keys, (list, tuple)) or not all(hashable(k) for k in keys) or not is_num(N):
            return UNDEF
        n = _count(d, keys)
        if n is UNDEF:
            return UNDEF
        return {"keys_contain_N_of": n == N, "keys_contain_at_least_N_of": n >= N,
                "keys_contain_at_most_N_of": n <= N}[call]
    if call in ("keys_contain_any_of", "keys_contain_all_of", "keys_contain_one_of"):
        keys = args
        if not all(hashable(k) for k in keys):
            return UNDEF
        n = _count(d, keys)
        if n is UNDEF:
            return UNDEF
        return {"keys_contain_any_of": n >= 1, "keys_contain_all_of": n == len(keys),
                "keys_contain_one_of": n == 1}[call]
    if call in ("keys_equal_to", "allowed_keys", "required_keys", "forbidden_keys"):
        keys = args
        if not isinstance(d, dict) or not all(hashable(k) for k in keys):
            return UNDEF
        dk, ak = set(d.keys()), set(keys)
        return {"keys_equal_to": dk == ak, "allowed_keys": dk <= ak, "required_keys": ak <= dk,
                "forbidden_keys": not (ak & dk)}[call]
    if call == "keys_is_instance":
        if not isinstance(d, dict) or not all(isinstance(c, type) for c in args):
            return UNDEF
        return all(isinstance(k, tuple(args)) for k in d)
    if call == "items_contain":
        if not isinstance(d, dict):
            return UNDEF
        for k, v in kwargs:
            if k not in d or not jeq(d[k], v):
                return False
        return True
    raise ValueError("unknown callable %r" % (call,))


def _is_nan(x):
    return isinstance(x, float) and x != x


def exact(call, d, args, kwargs):
    """Is the meaning of this (callable, arguments, datum) triple unambiguous enough for an
    exact comparison with the implementation?  (Otherwise the oracle is totality + shape.)

    * ill-typed argument values (``factor_of('abc')``: CPython's ``str % x`` formatting would
      decide) are judged for totality only;
    * so are *vacuous* arguments of the mapping callables on non-mapping items
      (``keys_contain_all_of()`` with no keys, ``items_contain()`` with no items): the statement's
      "keys of a non-mapping" does not clearly cover a comparison that inspects no key.
    """
    call = T.ALIASES.get(call, call)
    kw = dict(kwargs)
    vals = list(args) + list(kw.values())
    if call in ("in_range", "not_in_range"):
        return len(vals) == 2 and all(type(v) in (int, bool) for v in vals)
    if call == "equal_to_approx":
        return all(is_num(v) for v in vals)
    if call in ("factor_of", "has_factor"):
        return len(vals) == 1 and is_num(vals[0])
    if call in ("is_instance", "keys_is_instance"):
        if not all(isinstance(c, type) for c in args):
            return False
        if call == "keys_is_instance" and not isinstance(d, dict):
            return True
        return True
    if call in T.MAPC:
        non_map = not isinstance(d, dict)
        if call == "keys_contain":
            return hashable(vals[0])
        if call in ("keys_contain_at_least_one_of", "keys_contain_at_most_one_of"):
            keys = vals[0]
            return isinstance(keys, (list, tuple)) and all(hashable(k) for k in keys) and not (non_map and not keys)
        if call.endswith("N_of"):
            N, keys = vals if len(vals) == 2 else (None, None)
            return (isinstance(keys, (list, tuple)) and all(hashable(k) for k in keys)
                    and type(N) in (int, bool, float) and not (non_map and not keys))
        if call == "items_contain":
            return not (non_map and not kwargs)
        # var-positional key callables
        return all(hashable(k) for k in args) and not (non_map and not args)
    return True


# ---- second oracle for the arguments ``exact`` leaves out: the comparison exactly as the
# library documents it (one Python expression per callable, transcribed here from the pinned
# documentation, not imported), an exception of the kinds the statement calls "not defined"
# counting as "does not satisfy".  It decides the ill-typed corners (``has_factor([])`` on a
# string item is string formatting, whose result is never == 0) that case analysis leaves open.
def _kc(d, keys):
    return sum(k in d.keys() for k in keys)


_PY = {
    "equal_to": lambda d, value: d == value,
    "not_equal_to": lambda d, value: d != value,
    "less_than": lambda d, value: d < value,
    "greater_than": lambda d, value: d > value,
    "less_than_or_equal_to": lambda d, value: d <= value,
    "greater_than_or_equal_to": lambda d, value: d >= value,
    "in_": lambda d, value: d in value,
    "not_in": lambda d, value: d not in value,
    "in_range": lambda d, lower, upper: d in range(lower, upper),
    "not_in_range": lambda d, lower, upper: d not in range(lower, upper),
    "factor_of": lambda d, value: value % d == 0,
    "has_factor": lambda d, value: d % value == 0,
    "equal_to_approx": lambda d, value, tolerance=1e-8: abs(d - value) < tolerance,
    "truthy": lambda d: not not d,
    "falsy": lambda d: not d,
    "null": lambda d: True,
    "is_instance": lambda d, *classes: isinstance(d, classes),
    "keys_contain": lambda d, key: key in d.keys(),
    "keys_contain_any_of": lambda d, *keys: any(k in d.keys() for k in keys),   # (left to right, stops early)
    "keys_contain_all_of": lambda d, *keys: all(k in d.keys() for k in keys),
    "keys_contain_N_of": lambda d, N, keys: _kc(d, keys) == N,
    "keys_contain_at_least_N_of": lambda d, N, keys: _kc(d, keys) >= N,
    "keys_contain_at_most_N_of": lambda d, N, keys: _kc(d, keys) <= N,
    "keys_contain_one_of": lambda d, *keys: _kc(d, keys) == 1,
    "keys_contain_at_least_one_of": lambda d, keys: _kc(d, keys) >= 1,
    "keys_contain_at_most_one_of": lambda d, keys: _kc(d, keys) <= 1,
    "keys_equal_to": lambda d, *keys: set(d.keys()) == set(keys),
    "keys_is_instance": lambda d, *classes: all(isinstance(i, classes) for i in d.keys()),
    "items_contain": lambda d, **items: all(k in d and not (d[k] != v) for k, v in items.items()),
    "allowed_keys": lambda d, *keys: not (set(d.keys()) - set(keys)),
    "required_keys": lambda d, *keys: not (set(keys) - set(d.keys())),
    "forbidden_keys": lambda d, *keys: not (set(keys) & set(d.keys())),
}
_UNDEFINED = (TypeError, AttributeError, ZeroDivisionError, ValueError)


def pythonic(call, d, args, kwargs):
    """True / False, or None when this oracle does not decide (an exception of another kind, a
    non-boolean outcome)."""
    call = T.ALIASES.get(call, call)
    try:
        r = _PY[call](d, *args, **dict(kwargs))
    except _UNDEFINED:
        return False
    except Exception:
        return None
    return r if isinstance(r, bool) else None


def pythonic_holds(t, key, value):
    _, cls, call, args, kwargs = t
    d = value if T.KIND[cls] == "value" else key
    p = prep(T.PREP[cls], d)
    if p is UNDEF:
        return False
    return pythonic(call, p, args, kwargs)


def prep(p, d):
    if p is None:
        return d
    if p == "length":
        if isinstance(d, (str, list, dict, tuple)):
            return len(d)
        return UNDEF
    if p == "dtype":
        return type(d)
    raise ValueError(p)


def resolve_args(args, kwargs, source_doc):
    """Replace top-level path-valued arguments by what they select in the validated document
    (C17).  ``source_doc`` None: leave path arguments alone (they are then compared literally,
    which never happens in the spaces enumerated)."""
    def res(a):
        if T.is_path_arg(a):
            return resolve_path(a[1], source_doc)
        if isinstance(a, list):
            return [res(i) for i in a]
        if isinstance(a, tuple):
            return tuple(res(i) for i in a)
        if isinstance(a, dict):
            return {k: res(v) for k, v in a.items()}
        return a
    return tuple(res(a) for a in args), tuple((k, res(v)) for k, v in kwargs)


def leaf_holds(t, key, value, source_doc=None):
    """Does leaf ``t`` hold for the item (key-or-index, value)?  -> (bool, exact?)"""
    _, cls, call, args, kwargs = t
    d = value if T.KIND[cls] == "value" else key
    if source_doc is not None:
        args, kwargs = resolve_args(args, kwargs, source_doc)
    p = prep(T.PREP[cls], d)
    if p is UNDEF:
        return False, True
    m = meaning(call, p, args, kwargs)
    return (m is True), exact(call, p, args, kwargs)


def is_null(t):
    return t[0] == "null" or (t[0] in ("and", "or", "xor") and is_null(t[1]) and is_null(t[2]))


def eval_cond(t, key, value, source_doc=None):
    """-> (bool, exact?) for a condition tree on one item."""
    tag = t[0]
    if tag == "null":
        return True, True
    if tag == "leaf":
        return leaf_holds(t, key, value, source_doc)
    # null is the identity of and / or / xor alike (C02)
    if is_null(t[1]):
        return eval_cond(t[2], key, value, source_doc)
    if is_null(t[2]):
        return eval_cond(t[1], key, value, source_doc)
    a, ea = eval_cond(t[1], key, value, source_doc)
    b, eb = eval_cond(t[2], key, value, source_doc)
    r = {"and": a and b, "or": a or b, "xor": a != b}[tag]
    return r, ea and eb


def items_of(doc):
    """[(key-or-index, value)] of a container in document order."""
    if isinstance(doc, dict):
        return list(doc.items())
    return list(enumerate(doc))


# ------------------------------------------------------------------------------ path walking
def _part_conds(part, is_list):
    """-> list of cond terms that an item of a container (of the given kind) must satisfy, or
    None when the part does not apply to this container kind."""
    tag = part[0]

    def c(x, cls):
        if x is None:
            return None
        if x[0] == "lit":
            return T.leaf(cls, "equal_to", value=x[1])
        return x

    if tag == "prim":
        p = part[1]
        if isinstance(p, (str, float)):
            return None if is_list else [T.leaf("Key", "equal_to", value=p)]
        if isinstance(p, int):
            return [T.leaf("Index" if is_list else "Key", "equal_to", value=p)]
        raise TypeError(p)
    if tag == "map":
        if is_list:
            return None
        return [x for x in (c(part[1], "Key"), c(part[2], "Value")) if x is not None]
    if tag == "list":
        if not is_list:
            return None
        return [x for x in (c(part[1], "Index"), c(part[2], "Value")) if x is not None]
    if tag == "mol":
        first = c(part[2], "Index") if is_list else c(part[1], "Key")
        return [x for x in (first, c(part[3], "Value")) if x is not None]
    raise ValueError(part)


def walk(path_t, doc):
    """-> [(concrete_path_tuple, node)] in document order.  A part does not apply to scalars,
    empty containers and the wrong container kind."""
    cur = [((), doc)]
    for part in path_t[1]:
        nxt = []
        for cp, node in cur:
            if not isinstance(node, (list, dict)) or not node:
                continue
            conds = _part_conds(part, isinstance(node, list))
            if conds is None:
                continue
            for k, v in items_of(node):
                if all(eval_cond(c, k, v)[0] for c in conds):
                    nxt.append((cp + (k,), v))
        cur = nxt
    return cur


def walk_exact(path_t, doc):
    """Like walk, but also says whether every condition evaluation involved was exact."""
    cur = [((), doc)]
    ex = True
    for part in path_t[1]:
        nxt = []
        for cp, node in cur:
            if not isinstance(node, (list, dict)) or not node:
                continue
            conds = _part_conds(part, isinstance(node, list))
            if conds is None:
                continue
            for k, v in items_of(node):
                ok = True
                for c in conds:
                    r, e = eval_cond(c, k, v)
                    ex = ex and e
                    if not r:
                        ok = False
                if ok:
                    nxt.append((cp + (k,), v))
        cur = nxt
    return cur, ex


def is_concrete(path_t):
    return all(p[0] == "prim" for p in path_t[1])


class DatumUndefined(Exception):
    pass


class MultipleMatches(Exception):
    pass


def apply_datum(datum, node):
    if datum is None:
        return node
    if datum == "length":
        if isinstance(node, (str, list, dict)):
            return len(node)
        raise DatumUndefined()
    if datum == "dtype":
        return type(node)
    if datum == "map_keys":
        if isinstance(node, dict):
            return list(node.keys())
        raise DatumUndefined()
    if datum == "map_values":
        if isinstance(node, dict):
            return list(node.values())
        raise DatumUndefined()
    raise ValueError(datum)


def select(path_t, doc, with_paths=False, sel=None):
    """What ``get_data`` must return: the reference selection with modifiers applied."""
    _, parts, datum, multi, _ = path_t
    if sel is None:
        sel = walk(path_t, doc)
    conc = is_concrete(path_t)
    if not sel:
        return None if conc else []
    vals = [apply_datum(datum, n) for _, n in sel]
    out = [(v, cp) for v, (cp, _) in zip(vals, sel)] if with_paths else vals
    if conc:
        return out[0]
    if multi in (None, "all"):
        return out
    if multi == "first":
        return out[0]
    if multi == "last":
        return out[-1]
    if multi == "single":
        if len(out) > 1:
            raise MultipleMatches()
        return out[0]
    raise ValueError(multi)


def resolve_path(path_t, doc):
    return select(path_t, doc, with_paths=False)


# ------------------------------------------------------------------------------------- rules
def rule_test(rule_t, doc, source_doc=None):
    """-> dict(valid, tested, failures=[(concrete_path, node)], exact)"""
    _, p, c, cast, _ = rule_t
    sel, ex = walk_exact(p, doc)
    if source_doc is None:
        source_doc = doc
    fails = []
    for cp, node in sel:
        ok, e = eval_cond(c, cp[-1] if cp else None, node, source_doc)
        ex = ex and e
        if not ok:
            fails.append((cp, node))
    return {"valid": not fails, "tested": bool(sel), "failures": fails, "exact": ex}


def cast_value(cast, v):
    """First declared cast whose source type matches is attempted; -> (cast?, new value)."""
    for frm, to in cast:
        if frm == "str" and isinstance(v, str):
            if to == "bool":
                if v.lower() == "true":
                    return True, True
                if v.lower() == "false":
                    return True, False
                return False, v
            if to == "int":
                try:
                    return True, int(v)
                except ValueError:
                    return False, v
    return False, v


def set_at(doc, cp, v):
    for k in cp[:-1]:
        doc = doc[k]
    doc[cp[-1]] = v


# ----------------------------------------------------------------------------------- schemas
def sorted_rules(rule_terms):
    """shortest path first, ties in the given order (stable)"""
    return sorted(rule_terms, key=lambda r: len(r[1][1]))


def deep(x):
    if isinstance(x, list):
        return [deep(i) for i in x]
    if isinstance(x, dict):
        return {k: deep(v) for k, v in x.items()}
    return x


def schema_validate(schema_t, doc):
    """-> dict(rules=[sorted rule terms], tests=[rule_test dicts], cast_data, valid, num_failures,
    num_tested).  Cast rules select from the *input*, replace castable nodes in one private copy
    shared by the whole validation, and are judged on that copy; cast-free rules are judged on
    the input (what the code does; the statements are silent about it)."""
    rules = sorted_rules(schema_t[1])
    copy = deep(doc)
    tests = []
    for r in rules:
        cast = r[3]
        if cast:
            for cp, node in walk(r[1], doc):
                ok, new = cast_value(cast, node)
                if ok and cp:
                    set_at(copy, cp, new)
            tests.append(rule_test(r, copy))
        else:
            tests.append(rule_test(r, doc))
    return {
        "rules": rules, "tests": tests, "cast_data": copy,
        "valid": all(t["valid"] for t in tests),
        "num_failures": sum(len(t["failures"]) for t in tests),
        "num_tested": sum(1 for t in tests if t["tested"]),
    }
