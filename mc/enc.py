"""Lossless JSON encoding of the plain-data terms / documents used by the explorer.

JSON cannot represent tuples, type objects, non-string mapping keys or the int/float/bool
distinction of keys; replay files need all of them.  ``enc`` maps a Python value to pure JSON,
``dec`` is its inverse (``dec(json.loads(json.dumps(enc(x))))`` is type-exactly ``x``).
"""
import pathlib

TYPES = {
    "int": int, "float": float, "str": str, "list": list, "dict": dict, "bool": bool,
    "path": pathlib.Path, "NoneType": type(None), "tuple": tuple, "type": type, "set": set,
    "object": object,
}
TYPE_NAMES = {v: k for k, v in TYPES.items()}


def enc(x):
    if x is None or isinstance(x, (bool, int, str)):
        return x
    if isinstance(x, float):
        return {"$f": repr(x)}
    if isinstance(x, list):
        return [enc(i) for i in x]
    if isinstance(x, tuple):
        return {"$t": [enc(i) for i in x]}
    if isinstance(x, dict):
        return {"$d": [[enc(k), enc(v)] for k, v in x.items()]}
    if isinstance(x, type):
        return {"$type": TYPE_NAMES.get(x, x.__name__)}
    if isinstance(x, (set, frozenset)):
        return {"$s": sorted((enc(i) for i in x), key=repr)}
    return {"$repr": repr(x)}


def dec(x):
    if isinstance(x, list):
        return [dec(i) for i in x]
    if isinstance(x, dict):
        if "$f" in x:
            return float(x["$f"])
        if "$t" in x:
            return tuple(dec(i) for i in x["$t"])
        if "$d" in x:
            return {dec(k): dec(v) for k, v in x["$d"]}
        if "$type" in x:
            return TYPES[x["$type"]]
        if "$s" in x:
            return set(dec(i) for i in x["$s"])
        if "$repr" in x:
            return x["$repr"]
        raise ValueError(f"cannot decode {x!r}")
    return x


def fresh(x):
    """Type-exact deep copy of a JSON-like value (documents are rebuilt per call so that no
    input is ever aliased between two executions)."""
    if isinstance(x, list):
        return [fresh(i) for i in x]
    if isinstance(x, tuple):
        return tuple(fresh(i) for i in x)
    if isinstance(x, dict):
        return {k: fresh(v) for k, v in x.items()}
    return x
