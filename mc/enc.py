"""Lossless JSON encoding of the plain-data terms / documents used by the explorer.

JSON cannot represent tuples, type objects, non-string mapping keys or the int/float/bool
distinction of keys; replay files need all of them.  ``enc`` maps a Python value to pure JSON,
``dec`` is its inverse (``dec(json.loads(json.dumps(enc(x))))`` is type-exactly ``x``).
"""
import pathlib

TYPES = {
    "int": int, "float": float, "str": str, "list": list, "dict": dict, "bool": bool,
    "path": pathlib.Path, "NoneType": type(None), "tuple": tuple, "type": type, "set": set,
    "object": object, "bytes": bytes, "complex": complex, "frozenset": frozenset,
}
TYPE_NAMES = {v: k for k, v in TYPES.items()}


def _shared_ids(x, seen=None, shared=None):
    """ids of list / dict objects reachable more than once (aliased sub-containers, as YAML anchors produce)."""
    if seen is None:
        seen, shared = set(), set()
    if isinstance(x, (list, dict)):
        if id(x) in seen:
            shared.add(id(x))
            return shared
        seen.add(id(x))
        for v in (x.values() if isinstance(x, dict) else x):
            _shared_ids(v, seen, shared)
        if isinstance(x, dict):
            for k in x:
                _shared_ids(k, seen, shared)
    elif isinstance(x, tuple):
        for v in x:
            _shared_ids(v, seen, shared)
    return shared


def enc(x, _shared=None, _defs=None):
    if _shared is None:
        _shared = _shared_ids(x)
        _defs = {}
    if x is None or isinstance(x, (bool, int, str)):
        return x
    if isinstance(x, float):
        return {"$f": repr(x)}
    if isinstance(x, (list, dict)) and id(x) in _shared:
        if id(x) in _defs:
            return {"$ref": _defs[id(x)]}
        _defs[id(x)] = len(_defs)
        n = _defs[id(x)]
        body = [enc(i, _shared, _defs) for i in x] if isinstance(x, list) else \
            {"$d": [[enc(k, _shared, _defs), enc(v, _shared, _defs)] for k, v in x.items()]}
        return {"$def": n, "v": body}
    if isinstance(x, list):
        return [enc(i, _shared, _defs) for i in x]
    if isinstance(x, tuple):
        return {"$t": [enc(i, _shared, _defs) for i in x]}
    if isinstance(x, dict):
        return {"$d": [[enc(k, _shared, _defs), enc(v, _shared, _defs)] for k, v in x.items()]}
    if isinstance(x, type):
        return {"$type": TYPE_NAMES.get(x, x.__name__)}
    if isinstance(x, (set, frozenset)):
        return {"$s": sorted((enc(i, _shared, _defs) for i in x), key=repr)}
    return {"$repr": repr(x)}


def dec(x, _defs=None):
    if _defs is None:
        _defs = {}
    if isinstance(x, list):
        return [dec(i, _defs) for i in x]
    if isinstance(x, dict):
        if "$f" in x:
            return float(x["$f"])
        if "$ref" in x:
            return _defs[x["$ref"]]
        if "$def" in x:
            body = x["v"]
            if isinstance(body, list):
                out = []
                _defs[x["$def"]] = out
                out.extend(dec(i, _defs) for i in body)
            else:
                out = {}
                _defs[x["$def"]] = out
                for k, v in body["$d"]:
                    out[dec(k, _defs)] = dec(v, _defs)
            return out
        if "$t" in x:
            return tuple(dec(i, _defs) for i in x["$t"])
        if "$d" in x:
            return {dec(k, _defs): dec(v, _defs) for k, v in x["$d"]}
        if "$type" in x:
            return TYPES[x["$type"]]
        if "$s" in x:
            return set(dec(i, _defs) for i in x["$s"])
        if "$repr" in x:
            return x["$repr"]
        raise ValueError(f"cannot decode {x!r}")
    return x


def fresh(x, _memo=None):
    """Type-exact deep copy of a JSON-like value (documents are rebuilt per call so that no input is ever
    aliased between two executions).  Sharing *inside* the value (the same list / dict object at two
    positions, as a YAML anchor / alias produces) is preserved."""
    if _memo is None:
        _memo = {}
    if isinstance(x, (list, dict)):
        if id(x) in _memo:
            return _memo[id(x)]
        if isinstance(x, list):
            out = []
            _memo[id(x)] = out
            out.extend(fresh(i, _memo) for i in x)
        else:
            out = {}
            _memo[id(x)] = out
            for k, v in x.items():
                out[k] = fresh(v, _memo)
        return out
    if isinstance(x, tuple):
        return tuple(fresh(i, _memo) for i in x)
    return x
