#!/bin/sh
# tools/seed_batch.sh <src_root> <koff>  -- evaluate every <src_root>/<PROP>/patch_{1,2}.diff that has not been ingested yet
SRC_ROOT="$1"; KOFF="$2"; export SRC_ROOT KOFF
for d in "$SRC_ROOT"/C*/; do
  P=$(basename "$d")
  for k in 1 2; do
    [ -f "$d/patch_$k.diff" ] || continue
    out="/verif/seeded/$P-$((k + KOFF))"
    [ -f "$out/meta.json" ] && continue
    /verif/tools/seed_eval.sh "$P" "$k" 2>&1 | grep -v "^  "
  done
done
