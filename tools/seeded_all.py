#!/venv/bin/python
"""Re-run every kept seeded change (/verif/seeded/*/patch.diff) against the current /repo HEAD and the current
checks; rewrite seeded/RESULTS.md and the 'checks_run' / 'detected' fields of each meta.json.

usage: tools/seeded_all.py [--all-checks] [ids...]"""
import json, os, subprocess, sys, tempfile, shutil

VERIF = os.path.dirname(os.path.dirname(os.path.abspath(__file__)))
SEEDED = os.path.join(VERIF, "seeded")
ALL = ["C%02d" % i for i in range(1, 21)]


def sh(cmd, **kw):
    return subprocess.run(cmd, shell=True, capture_output=True, text=True, **kw)


def main():
    args = [a for a in sys.argv[1:] if not a.startswith("--")]
    all_checks = "--all-checks" in sys.argv
    ids = sorted(d for d in os.listdir(SEEDED) if os.path.isfile(os.path.join(SEEDED, d, "patch.diff")))
    if args:
        ids = [i for i in ids if i in args]
    rows = []
    for sid in ids:
        d = os.path.join(SEEDED, sid)
        meta = json.load(open(os.path.join(d, "meta.json")))
        prop = meta.get("property", sid.split("-")[0])
        wt = tempfile.mkdtemp(prefix="valida-seeded-", dir="/tmp")
        shutil.rmtree(wt)
        sh("git -C /repo worktree add -q --detach %s HEAD" % wt)
        try:
            demo = os.path.join(d, "demo.py")
            clean = sh("cd /tmp && PYTHONPATH=%s timeout 300 /venv/bin/python %s" % (wt, demo)).returncode
            ap = sh("cd %s && git apply %s" % (wt, os.path.join(d, "patch.diff")))
            if ap.returncode != 0:
                rows.append((sid, prop, "PATCH DOES NOT APPLY", "", "", ""))
                continue
            tests = sh("cd %s && /venv/bin/python -m pytest -q -p no:cacheprovider 2>&1 | tail -1" % wt).stdout.strip()
            mut = sh("cd /tmp && PYTHONPATH=%s timeout 300 /venv/bin/python %s" % (wt, demo)).returncode
            checks = ALL if all_checks else [prop] + [c for c in meta.get("checks_run", {}) if c != prop]
            results = {}
            sigs = {}
            for c in checks:
                r = sh("cd %s && VERIF_REPO=%s timeout 1800 ./check %s --tier quick" % (VERIF, wt, c))
                results[c] = "exit=%d" % r.returncode
                sigs[c] = [l.strip().replace("signature: ", "") for l in r.stdout.splitlines() if "signature:" in l][:2]
            meta["checks_run"] = results
            meta["detected"] = results.get(prop) == "exit=1"
            meta["detected_by"] = [c for c, v in results.items() if v == "exit=1"]
            meta["first_signatures"] = {c: s for c, s in sigs.items() if s}
            meta["confirmed"] = {"tests_with_change": tests, "demo_exit_clean": clean, "demo_exit_with_change": mut}
            json.dump(meta, open(os.path.join(d, "meta.json"), "w"), indent=1)
            rows.append((sid, prop, tests.split(",")[0], "%d/%d" % (clean, mut), ", ".join(meta["detected_by"]) or "MISSED",
                         "; ".join(sigs.get(prop, [])[:1])))
            print(rows[-1], flush=True)
        finally:
            sh("git -C /repo worktree remove --force %s" % wt)
            shutil.rmtree(wt, ignore_errors=True)
    if os.environ.get("SEEDED_NO_RESULTS"):      # (a partial run: the table is written by tools/seeded_results.py)
        return
    write_results(rows)


def row_from_meta(sid):
    meta = json.load(open(os.path.join(SEEDED, sid, "meta.json")))
    prop = meta.get("property", sid.split("-")[0])
    c = meta.get("confirmed", {})
    sigs = meta.get("first_signatures", {})
    return (sid, prop, str(c.get("tests_with_change", "")).split(",")[0], "%s/%s" % (c.get("demo_exit_clean"), c.get("demo_exit_with_change")),
            ", ".join(meta.get("detected_by", [])) or "MISSED", "; ".join(sigs.get(prop, [])[:1]))


def write_results(rows):
    with open(os.path.join(SEEDED, "RESULTS.md"), "w") as fh:
        fh.write("# Seeded property-breaking changes and what detects them\n\n"
                 "Each row: a change to hpcflow/valida that keeps the 266 pinned tests green and breaks the named property\n"
                 "(demo exit: clean tree / with the change).  Regenerate with `tools/seeded_all.py [--all-checks]`.\n\n"
                 "| id | property | tests with change | demo exit clean/changed | detected by (quick tier) | first signature |\n|---|---|---|---|---|---|\n")
        for r in rows:
            fh.write("| %s | %s | %s | %s | %s | `%s` |\n" % r)
    print("wrote seeded/RESULTS.md (%d rows)" % len(rows))


if __name__ == "__main__":
    if "--table-only" in sys.argv:
        ids = sorted(d for d in os.listdir(SEEDED) if os.path.isfile(os.path.join(SEEDED, d, "patch.diff")))
        write_results([row_from_meta(i) for i in ids])
    else:
        main()
