#!/bin/sh
# tools/benign_eval.sh <patch.diff> [checks...]  -- a behaviour-preserving refactoring must not raise any alarm
patch="$1"; shift
wt="/tmp/valida-benign-$$"
git -C /repo worktree add -q --detach "$wt" HEAD || exit 2
trap 'git -C /repo worktree remove --force "$wt" >/dev/null 2>&1; rm -rf "$wt"' EXIT
(cd "$wt" && git apply "$patch") || { echo "PATCH DOES NOT APPLY: $patch"; exit 3; }
tests=$(cd "$wt" && /venv/bin/python -m pytest -q -p no:cacheprovider 2>&1 | tail -1)
echo "[$patch] tests: $tests"
for c in ${@:-C01 C02 C03 C04 C05 C06 C07 C08 C09 C10 C11 C12 C13 C14 C15 C16 C17 C18 C19 C20}; do
  out=$(cd /verif && VERIF_REPO="$wt" timeout 1800 ./check "$c" --tier quick 2>&1)
  rc=$?
  if [ "$rc" != 0 ]; then
    echo "[$patch] ALARM check $c exit=$rc"
    echo "$out" | grep -A3 "signature" | head -12
    [ "$rc" = 2 ] && echo "$out" | tail -5
  fi
done
echo "[$patch] done"
