#!/bin/sh
# tools/mutant.sh <patch.diff | revert:<commit>> <check-id>...   [TIER=quick]
# Applies a property-breaking change to a scratch worktree of /repo (outside /repo and /verif),
# runs the pinned test-suite there (must still pass) and the named checks with VERIF_REPO
# pointing at it (at least one must report a VIOLATION), then removes the worktree.
set -u
what="$1"; shift
wt="/tmp/valida-mut-$$"
git -C /repo worktree add -q --detach "$wt" HEAD || exit 2
trap 'git -C /repo worktree remove --force "$wt" >/dev/null 2>&1; rm -rf "$wt"' EXIT
case "$what" in
  revert:*) (cd "$wt" && git revert -n "${what#revert:}" >/dev/null 2>&1) || { echo "cannot revert $what"; exit 2; } ;;
  *) (cd "$wt" && git apply "$what") || { echo "cannot apply $what"; exit 2; } ;;
esac
tests=$(cd "$wt" && /venv/bin/python -m pytest -q -p no:cacheprovider -x 2>&1 | tail -1)
echo "tests: $tests"
detected=0
for c in "$@"; do
  out=$(cd /verif && VERIF_REPO="$wt" ./check "$c" --tier "${TIER:-quick}" 2>&1)
  rc=$?
  n=$(echo "$out" | grep -c '^VIOLATION')
  echo "check $c: exit=$rc violations=$n"
  echo "$out" | grep 'signature' | head -${SHOW:-3}
  [ "$rc" = 1 ] && detected=1
done
[ "$detected" = 1 ] && echo "RESULT: DETECTED" || echo "RESULT: MISSED"
