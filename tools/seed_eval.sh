#!/bin/sh
# tools/seed_eval.sh <PROP> <k> [extra checks...]   -- confirm a sub-agent's seeded change and run checks on it
# input:  /tmp/agent_out/<PROP>/{patch_k.diff,demo_k.py,meta_k.json}
# output: /verif/seeded/<PROP>-<k>/{patch.diff,demo.py,meta.json}  (kept only if confirmed)
set -u
P="$1"; K="$2"; shift 2
src="${SRC_ROOT:-/tmp/agent_out}/$P"
wt="/tmp/valida-seed-$$"
git -C /repo worktree add -q --detach "$wt" HEAD || exit 2
trap 'git -C /repo worktree remove --force "$wt" >/dev/null 2>&1; rm -rf "$wt"' EXIT
clean_demo=$(cd /tmp && PYTHONPATH="$wt" timeout 120 /venv/bin/python "$src/demo_$K.py" >/dev/null 2>&1; echo $?)
(cd "$wt" && git apply "$src/patch_$K.diff") || { echo "patch does not apply to current HEAD"; exit 3; }
tests=$(cd "$wt" && /venv/bin/python -m pytest -q -p no:cacheprovider 2>&1 | tail -1)
mut_demo=$(cd /tmp && PYTHONPATH="$wt" timeout 120 /venv/bin/python "$src/demo_$K.py" >/dev/null 2>&1; echo $?)
echo "[$P-$K] demo clean=$clean_demo mutated=$mut_demo tests: $tests"
confirmed=no
case "$tests" in *"266 passed"*) [ "$clean_demo" = 0 ] && [ "$mut_demo" != 0 ] && confirmed=yes;; esac
echo "[$P-$K] confirmed=$confirmed"
results=""
for c in "$P" "$@"; do
  out=$(cd /verif && VERIF_REPO="$wt" timeout 900 ./check "$c" --tier "${TIER:-quick}" 2>&1)
  rc=$?
  n=$(echo "$out" | grep -c '^VIOLATION')
  echo "[$P-$K] check $c: exit=$rc violations=$n"
  echo "$out" | grep 'signature' | head -3
  [ "$rc" = 2 ] && echo "$out" | tail -5
  results="$results $c:exit=$rc"
done
if [ "$confirmed" = yes ]; then
  d="/verif/seeded/$P-$((K + ${KOFF:-0}))"; mkdir -p "$d"
  cp "$src/patch_$K.diff" "$d/patch.diff"; cp "$src/demo_$K.py" "$d/demo.py"
  /venv/bin/python - "$src/meta_$K.json" "$d/meta.json" "$tests" "$clean_demo" "$mut_demo" "$results" "${TIER:-quick}" <<'PY'
import json,sys
src,dst,tests,cd,md,results,tier=sys.argv[1:]
try: m=json.load(open(src))
except Exception: m={}
m["confirmed"]={"tests_with_change":tests,"demo_exit_clean":int(cd),"demo_exit_with_change":int(md)}
m["checks_run"]={r.split(":")[0]:r.split(":")[1] for r in results.split()}
m["tier"]=tier
m["detected"]=any(v=="exit=1" for v in m["checks_run"].values())
m["how_run"]="tools/seed_eval.sh: scratch worktree of /repo HEAD, git apply patch.diff, pinned pytest, demo.py with PYTHONPATH, ./check <id> with VERIF_REPO"
json.dump(m,open(dst,"w"),indent=1)
PY
fi
