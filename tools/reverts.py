#!/venv/bin/python
"""For every `fix:` commit in /repo: revert it alone in a scratch worktree (re-introducing the repaired defect), run the
pinned tests and every quick check with VERIF_REPO pointing at it; write seeded/REVERTS.md (which checks report the
defect again).  usage: tools/reverts.py [commit...]"""
import os, subprocess, sys, tempfile, shutil

VERIF = os.path.dirname(os.path.dirname(os.path.abspath(__file__)))
ALL = ["C%02d" % i for i in range(1, 21)]


def sh(cmd):
    return subprocess.run(cmd, shell=True, capture_output=True, text=True)


def main():
    log = sh("git -C /repo log --format='%h %s' --grep='^fix:' --reverse").stdout.strip().splitlines()
    want = sys.argv[1:]
    rows = []
    for line in log:
        h, subj = line.split(" ", 1)
        if want and h not in want:
            continue
        wt = tempfile.mkdtemp(prefix="valida-revert-", dir="/tmp")
        shutil.rmtree(wt)
        sh("git -C /repo worktree add -q --detach %s HEAD" % wt)
        try:
            r = sh("cd %s && git revert -n %s" % (wt, h))
            if r.returncode != 0:
                rows.append((h, subj, "revert conflicts with later fixes (not run)", "", ""))
                print(rows[-1], flush=True)
                continue
            tests = sh("cd %s && /venv/bin/python -m pytest -q -p no:cacheprovider 2>&1 | tail -1" % wt).stdout.strip().split(",")[0]
            det, err = [], []
            for c in ALL:
                rr = sh("cd %s && VERIF_REPO=%s timeout 1800 ./check %s --tier quick -q" % (VERIF, wt, c))
                if rr.returncode == 1:
                    det.append(c)
                elif rr.returncode != 0:
                    err.append("%s:exit=%d" % (c, rr.returncode))
            rows.append((h, subj, tests, ", ".join(det) or "NONE", ", ".join(err)))
            print(rows[-1], flush=True)
        finally:
            sh("git -C /repo worktree remove --force %s" % wt)
            shutil.rmtree(wt, ignore_errors=True)
    out = os.path.join(VERIF, "seeded", "REVERTS.md")
    with open(out, "w") as fh:
        fh.write("# Re-introducing each repaired defect (git revert of one `fix:` commit) and which quick checks report it\n\n"
                 "| commit | fix | tests with the revert | reported by | harness errors |\n|---|---|---|---|---|\n")
        for r in rows:
            fh.write("| %s | %s | %s | %s | %s |\n" % r)
    print("wrote", out)


main()
