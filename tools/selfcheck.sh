#!/bin/sh
# tools/selfcheck.sh [--full]  -- one command to re-validate the whole framework on the current /repo tree:
#   1. every quick check exits 0 (seeds 0 and 1), evidence files validate against the schema, MANIFEST validates
#   2. (--full) every behaviour-preserving refactoring in seeded/benign stays silent on all 20 checks
#   3. (--full) every seeded change is still reported by the check of its own property (tools/seeded_all.py)
cd /verif || exit 2
fail=0
for s in 0 1; do
  for i in 01 02 03 04 05 06 07 08 09 10 11 12 13 14 15 16 17 18 19 20; do
    VERIF_SEED=$s ./check C$i --tier quick -q >/tmp/selfcheck.out 2>&1; rc=$?
    if [ $rc != 0 ] || grep -q '^VIOLATION' /tmp/selfcheck.out; then echo "FAIL: C$i seed=$s rc=$rc"; fail=1; fi
  done
done
python3-vt - <<'PY' || fail=1
import json, jsonschema, glob
sch = json.load(open('/root/.vp/EVIDENCE.schema.json'))
for f in sorted(glob.glob('/verif/evidence/C*.json')):
    jsonschema.validate(json.load(open(f)), sch)
jsonschema.validate(json.load(open('/verif/MANIFEST.json')), json.load(open('/root/.vp/MANIFEST.schema.json')))
print("evidence + manifest: valid")
PY
if [ "${1:-}" = "--full" ]; then
  for p in seeded/benign/*.diff; do tools/benign_eval.sh "$PWD/$p" 2>&1 | grep ALARM && fail=1; done
  tools/seeded_all.py >/tmp/selfcheck_seeded.log 2>&1
  n=$(grep -c MISSED seeded/RESULTS.md)
  echo "seeded changes not reported by their own check: $n (expected 0)"
  [ "$n" = 0 ] || fail=1
fi
[ $fail = 0 ] && echo "SELFCHECK OK" || echo "SELFCHECK FAILED"
exit $fail
