#!/bin/sh
# tools/coverage.sh [checks...]  -- branch coverage of /repo/valida achieved by the quick tier of the given checks (default: all)
# (development aid: shows which lines / branches of the library no exploration reaches)
d=$(mktemp -d /tmp/valida-cov-XXXX)
cd /verif || exit 2
for c in ${@:-C01 C02 C03 C04 C05 C06 C07 C09 C10 C11 C12 C13 C14 C15 C16 C17 C18 C19 C20}; do
  VERIF_COVERAGE="$d" ./check "$c" --tier quick -q >/dev/null 2>&1
done
cd "$d" && /venv/bin/python -m coverage combine -q >/dev/null 2>&1
/venv/bin/python -m coverage report --show-missing --data-file="$d/.coverage" 2>&1 | tail -20
rm -rf "$d"
