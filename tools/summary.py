#!/venv/bin/python
"""Print a markdown table of what the evidence files say each check covered (for DESIGN.md section 9)."""
import glob, json
print("| id | tier | states | transitions (API calls / scheduling points) | executions | non-trivial | known findings hit | wall s |")
print("|---|---|---|---|---|---|---|---|")
for f in sorted(glob.glob("/verif/evidence/C*.json")):
    e = json.load(open(f)); c = e["coverage"]
    print("| %s | %s | %d | %d | %d | %d | %d | %.1f |" % (e["property_id"], e["tier"], c["states"], c["transitions"], c["evaluations"],
          c["distinct_nontrivial"], len(c.get("known_findings_hit", [])), e["wall_s"]))
